"""C06 — a path resolves only to the Sid that owns it, and never makes Sid() fail."""
import random

from lib import driver
from lib.rec import Rec

LEVEL = "exploration"
RULE = ("G6: valid Sid paths (every type with a path template, both configurations, names with '_') mutated by substituting a field value "
        "in one place only (desynchronised duplicates) or everywhere, dropping / duplicating components, changing literal template parts "
        "(separators, fixed folders, the extension dot), adding / removing trailing components, control characters, switching the root "
        "between configurations. Sid(path=p, config=c) must not raise; a typed result must have path(c) == p exactly; R8 (own matcher with "
        "back-references and escaped literals) says which mutants conform to no template. Non-trivial = distinct mutated path that differs "
        "from its valid origin in exactly one mutation.")
ASSUME = ["only mutants that R8 classifies as conforming to no template are judged for the 'must be untyped' clause; the 'typed => path(c) == p' "
          "clause is judged on every path", "path(c) == p is compared on the posix string form"]
BUDGET = {"quick": 32000, "thorough": 3200000}
NSHARDS = 16
from checks.c05 import NAMES  # noqa: E402


def shard_args(tier, seed):
    n = BUDGET[tier] // NSHARDS
    # odd shards touch the path configurations in reverse order first (they are loaded lazily, on first use)
    return [{"n": n, "seed": seed * 1000 + i, "reverse_load_order": bool(i % 2)} for i in range(NSHARDS)]


def floors(m, tier):
    c = m.counters
    return {"paths judged": (c.get("judged", 0), BUDGET[tier] // 2),
            "typed results": (c.get("typed", 0), BUDGET[tier] // 20),
            "R8 non-conforming mutants": (c.get("r8_nonconforming", 0), BUDGET[tier] // 4),
            "desynchronised duplicate mutants": (c.get("mut:desync", 0), BUDGET[tier] // 40),
            "root switched": (c.get("mut:switch_root", 0), BUDGET[tier] // 60),
            "query-like tails": (c.get("mut:query_like_tail", 0), BUDGET[tier] // 60),
            "shards that used the configurations in reverse order first": (c.get("reverse_load_order_shards", 0), 1)}


def order_check(m, results):
    """R8 reads the live templates: what it reads must not depend on which configuration a process used first."""
    digests = sorted(k for k in m.counters if k.startswith("tpl_digest:"))
    m.counters["template_digests_compared"] = sum(m.counters[k] for k in digests)
    if len(digests) > 1:
        m.unlisted_n += 1
        m.unlisted.append({"property": "C06", "kind": "path_templates_depend_on_which_configuration_was_used_first",
                           "case": {"order_check": True}, "detail": "template digests seen by the shards: %s" % digests})
    return None


def run(snap, tier, seed, t0, replay):
    if replay is not None and replay.get("case", replay).get("order_check"):
        from lib import harness
        from lib.workers import run_shards
        res = run_shards(snap, "c06", [{"n": 10, "seed": 0, "reverse_load_order": False}, {"n": 10, "seed": 0, "reverse_load_order": True}])
        m = harness.merge(res)
        order_check(m, res)
        print("REPLAY C06: violations=%d" % m.unlisted_n)
        return harness.finish("C06", tier, seed, LEVEL, m, RULE, t0, ASSUME, replay_mode=True)
    return driver.simple_run("C06", snap, tier, seed, t0, replay, LEVEL, RULE, ASSUME, shard_args, floors_fn=floors, extra_cov_fn=order_check)


def mutate_path(rng, p, pm, other_pm, tpl, vals, vocab_vals):
    """p: valid path string; tpl: PathTemplate; vals: path-side values dict. Returns (mutant, class)."""
    r = rng.random()
    comps = p.split("/")
    nroot = len(pm.root.rstrip("/").split("/"))
    if r < 0.16:
        # desynchronise: change one occurrence of a repeated field
        rep = [k for k in tpl.keys if sum(1 for seg in tpl.segs for q in seg if q[0] == "ph" and q[1] == k) > 1]
        if rep:
            k = rng.choice(rep)
            v = str(vals[k])
            new = rng.choice(vocab_vals.get(k) or ["zz"])
            if new != v and v:
                idxs = [i for i in range(len(p)) if p.startswith(v, i) and i >= len(pm.root)]
                if idxs:
                    i = rng.choice(idxs)
                    return p[:i] + new + p[i + len(v):], "desync"
    if r < 0.28:
        # substitute a field value everywhere by another valid value (a different valid Sid path)
        k = rng.choice(tpl.keys)
        new = rng.choice(vocab_vals.get(k) or ["zz"])
        v2 = dict(vals)
        v2[k] = new
        return tpl.render(v2), "substitute_all"
    if r < 0.36:
        k = rng.choice(tpl.keys)
        v2 = dict(vals)
        v2[k] = rng.choice(["zz", "", "V001", "v1", "work", "Work", "x y", "*", ">"])
        return tpl.render(v2), "substitute_invalid"
    if r < 0.44:
        i = rng.randrange(nroot, len(comps))
        c2 = comps[:]
        del c2[i]
        return "/".join(c2), "drop_component"
    if r < 0.50:
        i = rng.randrange(nroot, len(comps))
        c2 = comps[:]
        c2.insert(i, c2[i])
        return "/".join(c2), "dup_component"
    if r < 0.62:
        # literal parts
        i = rng.randrange(len(pm.root), len(p))
        ch = p[i]
        if ch in "_.":
            return p[:i] + rng.choice(["-", "X", "__", "", " ", "/"]) + p[i + 1:], "literal_sep"
        j = p.find("_", len(pm.root))
        d = p.rfind(".")
        opts = []
        if j > 0:
            opts.append((j, "literal_sep"))
        if d > len(pm.root):
            opts.append((d, "literal_dot"))
        if opts:
            i, cls = rng.choice(opts)
            return p[:i] + rng.choice(["-", "X", "", "..", "_"]) + p[i + 1:], cls
    if r < 0.70:
        # fixed folders
        fixed = [i for i in range(nroot, len(comps)) if comps[i].isupper() and comps[i] not in [str(v) for v in vals.values()]]
        if fixed:
            i = rng.choice(fixed)
            c2 = comps[:]
            c2[i] = rng.choice([c2[i].lower(), c2[i] + "X", "FOO", ""])
            return "/".join(c2), "fixed_folder"
    if r < 0.74:
        # a '?' in the last component: a file / folder name like any other (the separator of the Sid QUERY layer means nothing in a path)
        k = rng.choice(tpl.keys)
        return p + rng.choice(["?", "?a=b", "?%s=%s" % (k, vals[k]), "?%s=zz" % tpl.keys[-1], "?%s=*" % k]), "query_like_tail"
    if r < 0.78:
        return p + rng.choice(["/", "/x", "/v001", ".bak", "~", " ", "\n", "\t", "/.", "/.."]), "trailing_add"
    if r < 0.84:
        k = rng.randint(1, 3)
        return "/".join(comps[:-k]), "trailing_remove"
    if r < 0.92 and other_pm is not None:
        return other_pm.root + p[len(pm.root):], "switch_root"
    if r < 0.96:
        i = rng.randrange(len(pm.root), len(p) + 1)
        return p[:i] + rng.choice(["\n", "\0", "\r", " ", "//"]) + p[i:], "control_char"
    return rng.choice(["", "/", pm.root, pm.root.rstrip("/"), "relative/path", "C:\\x\\y", pm.root + "HAMLET", pm.root + "hamlet", "."]), "junk"


def judge(rec, Sid, pm, p, c, cls, pms=None):
    case = {"path": p, "config": c, "class": cls}
    # (the snapshot root changes from run to run: the replay rebuilds the path from its part below the configured root)
    for c2, pm2 in (pms or {c: pm}).items():
        if p.startswith(pm2.root):
            case["root_of"], case["below_root"] = c2, p[len(pm2.root):]
            break
    rec.count("judged")
    try:
        r = Sid(path=p, config=c)
    except Exception as e:
        rec.violation("raised", case, "%s: %s" % (type(e).__name__, e))
        return None
    conf_names = pm.conforming(p)
    if not conf_names:
        rec.count("r8_nonconforming")
    if r:
        rec.count("typed")
        case["sid"] = r.uri
        try:
            back = r.path(c)
        except Exception as e:
            rec.violation("path_of_result_raised", case, repr(e))
            return r
        if back is None or back.as_posix() != p:
            rec.violation("typed_but_path_differs", case, "sid=%s path(c)=%r" % (r.uri, back.as_posix() if back else None))
        elif not conf_names:
            rec.violation("typed_for_path_conforming_to_no_template", case, "sid=%s" % r.uri)
    else:
        rec.count("untyped")
    return r


def worker(args):
    from spil import conf, Sid
    from lib.refmodel import SidModel
    from lib.pathmodel import PathModel
    from lib import gen
    rec = Rec("C06")
    model = SidModel(conf)
    vocab = gen.Vocab(model)
    rng = random.Random(args.get("seed", 0))
    configs = list(conf.path_configs)
    if args.get("reverse_load_order"):
        for c in reversed(configs):
            Sid(path="/nowhere", config=c)
        rec.count("reverse_load_order_shards")
    pms = {c: PathModel(c) for c in configs}
    import hashlib
    rec.count("tpl_digest:" + hashlib.sha1(repr(sorted((c, sorted((k, t.tpl) for k, t in pm.templates.items())) for c, pm in pms.items())).encode()).hexdigest()[:12])
    if "replay" in args:
        c = args["replay"]
        rec.ev()
        pth = c["path"]
        if c.get("root_of") in pms:
            pth = pms[c["root_of"]].root + c["below_root"]
        judge(rec, Sid, pms[c["config"]], pth, c["config"], c.get("class", "replay"), pms)
        return rec.result()
    with_path = [t for t in model.templates if vocab.usable(t) and any(t.name in pm.templates for pm in pms.values())]
    for it in range(args["n"]):
        t = with_path[it % len(with_path)]
        c = rng.choice(configs)
        pm = pms[c]
        if t.name not in pm.templates:
            continue
        segs = vocab.valid_segments(t, rng, pool=NAMES)
        s = "/".join(segs)
        if model.is_search_string(s):
            continue
        fields = dict(zip(t.keys, segs))
        p = pm.render(t.name, fields)
        if p is None:
            continue
        tpl = pm.templates[t.name]
        vals = tpl.parse(p)
        if vals is None:
            rec.count("reference_could_not_parse_own_rendering")
            continue
        # per-key alternative path-side values
        vocab_vals = {}
        for i, k in enumerate(t.keys):
            vv = [pm.to_path_value(k, vocab.value(t, i, rng, pool=NAMES)) for _ in range(3)]
            vocab_vals[k] = [v for v in vv if "*" not in v and ">" not in v]
        others = [pms[o] for o in configs if o != c]
        rec.ev()
        m, cls = mutate_path(rng, p, pm, others[0] if others else None, tpl, vals, vocab_vals)
        rec.count("mut:" + cls)
        if m != p:
            rec.nt(m + "|" + c)
        judge(rec, Sid, pm, m, c, cls, pms)
        if rng.random() < 0.1:
            rec.ev()
            rec.count("mut:valid")
            r = judge(rec, Sid, pm, p, c, "valid", pms)
        if it % 2999 == 0:
            rec.sample({"valid": p[len(pm.root):], "mutant": m[len(pm.root):] if m.startswith(pm.root) else m, "class": cls, "config": c})
    return rec.result()
