"""C13 — answers never depend on what was asked before (caches are invisible).

Differential against fresh state: a pristine fork server per (hash seed, cache capacity) imports spil once and never calls it; every
history runs in a forked child of it, so "fresh" is exact.  Every call of every history is compared with the result of the same call
in a fresh child on the same data state; equivalent spellings of a call (positional / keyword, str / Path, config None / default) are
compared with each other; fresh results are compared across 8 hash seeds and against truly fresh interpreters.
"""
import json
import os
import random
import shutil
import subprocess
import sys

from lib import driver, harness
from lib.rec import Rec, digest
from lib.workers import run_shards

LEVEL = "exploration"
RULE = ('Call alphabet (~170 calls derived from the live configuration): Sid from string / sid= / fields= / query= / path+config (str and Path, '
        'positional and keyword, config None / local / server), path() / path(c) / path(config=c), unfold_search with every flag combination '
        'positionally and by keyword (string and Sid argument), match, find / find_one / exists on a fixed list, the local and server trees and '
        'FindInAll, partially consumed result generators (abandoned or kept alive), Sid.exists / children / get_last, create steps on the '
        'scratch tree, and a filler call issuing more distinct calls than any cache holds. The alphabet includes FindInAll(<other '
        'configuration>), flags passed half by position and half by keyword, a list the client appends to; the default tree always holds a few '
        'entities the other tree lacks. Random histories of length <= 50 (every position judged, so every ordered pair (a before b) seen '
        'counts), with cache capacity at its default and reduced to 3, under 8 hash seeds. Non-trivial = distinct ordered pair (a, b) of '
        'different calls with a executed before b in some judged history.')
ASSUME = ["client code mutating a returned container is not a call of the alphabet",
          "file-system backed finds are compared as sets (directory order is not part of the result); list and unfold results keep their order",
          "after a create, 'fresh' means a fresh child on the same tree state"]
BUDGET = {"quick": 26, "thorough": 1600}      # histories per worker
NSHARDS = 16
NSEEDS = 8


def shard_args(tier, seed):
    return [{"histories": BUDGET[tier], "seed": seed * 1000 + i, "hashseed": i % NSEEDS, "max_size": (3 if i >= NSEEDS else 0),
             "fresh_samples": 6 if tier == "quick" else 20} for i in range(NSHARDS)]


def envs(snap, shard_args_list):
    return [snap.env(conf_dir=snap.conf_copy("w%d" % i), hashseed=a.get("hashseed", (a.get("replay") or {}).get("hashseed") or 0))
            for i, a in enumerate(shard_args_list)]


def run(snap, tier, seed, t0, replay):
    if replay is not None:
        return driver.simple_run("C13", snap, tier, seed, t0, replay, LEVEL, RULE, ASSUME, shard_args, envs_fn=envs)
    args = shard_args(tier, seed)
    results = run_shards(snap, "c13", args, envs=envs(snap, args), timeout=3300)
    m = harness.merge(results)
    # ---- across hash seeds: the fresh result of every call must be the same
    per_call = {}
    for a, r in zip(args, results):
        if "_failed" in r:
            continue
        for name, (dg, short) in r.get("fresh", {}).items():
            per_call.setdefault(name, {}).setdefault(dg, []).append((a["hashseed"], a["max_size"], short))
    n_cmp = 0
    for name, variants in sorted(per_call.items()):
        n_cmp += 1
        if len(variants) > 1:
            m.unlisted_n += 1
            desc = {dg: v[0] for dg, v in variants.items()}
            m.unlisted.append({"property": "C13", "kind": "fresh_result_depends_on_hash_seed_or_capacity",
                               "case": {"call": name, "variants": [[s, ms] for v in variants.values() for (s, ms, _x) in v][:16]},
                               "detail": json.dumps([v[0][2] for v in variants.values()])[:900]})
    m.counters["calls_compared_across_hash_seeds"] = n_cmp
    m.counters["hash_seeds"] = len({a["hashseed"] for a, r in zip(args, results) if "_failed" not in r})
    c = m.counters
    nalpha = max([r.get("alphabet_size", 0) for r in results if "_failed" not in r] or [0])
    floors = {"histories": (c.get("histories", 0), BUDGET[tier] * NSHARDS * 3 // 4),
              "calls judged inside histories": (c.get("judged_calls", 0), BUDGET[tier] * NSHARDS * 10),
              "hash seeds": (c.get("hash_seeds", 0), NSEEDS),
              "evictions observed (reduced capacity)": (c.get("evictions_reduced", 0), 100),
              "cache hits observed": (c.get("cache_hits", 0), 1000),
              "resolva cache overflowed": (c.get("resolva_overflow", 0), 1),
              "equivalent spellings compared": (c.get("spelling_groups", 0), 20),
              "truly fresh interpreter cross-checks": (c.get("true_fresh", 0), 20),
              "histories with create": (c.get("histories_with_create", 0), NSHARDS),
              "question / data-change / same question histories": (c.get("sandwich_histories", 0), NSHARDS),
              "(data change, affected question) pairs": (c.get("affected_question_pairs", 0), NSHARDS * 4),
              "distinct ordered pairs": (len(m.nontrivial), 3000 if tier == "quick" else int(nalpha * (nalpha - 1) * 0.9))}
    return harness.finish("C13", tier, seed, LEVEL, m, RULE, t0, ASSUME, floors=floors,
                          extra_cov={"alphabet_size": nalpha, "ordered_pairs_possible": nalpha * (nalpha - 1)})


# ------------------------------------------------------------------------------------------- alphabet
def build_alphabet(lab, ents, root_of):
    """Deterministic (independent of hash seed / worker). Each entry: (name, group, spec, fs)."""
    model = lab.model
    rng = random.Random(99)
    calls = []

    def add(name, spec, group=None, fs=False):
        calls.append({"name": name, "group": group or name, "spec": spec, "fs": fs})

    files = [e for e in ents if model.natural(e).keys[-1] == model.leaf_keys.get(model.basetype(model.natural(e).name))]
    # anchor the alphabet in the most populated corner of the universe (searches must have several results)
    from collections import Counter
    by3 = Counter("/".join(f.split("/")[:3]) for f in files)
    by4 = Counter("/".join(f.split("/")[:4]) for f in files)
    files = sorted(files, key=lambda f: (-by4["/".join(f.split("/")[:4])], -by3["/".join(f.split("/")[:3])], f))
    f1, f2 = files[0], files[-1]
    segs = f1.split("/")
    typed = [f1, f2, "/".join(segs[:5]), "/".join(segs[:3]), "/".join(segs[:2]), segs[0]]
    star = "/".join(segs[:4] + ["*"] * (len(segs) - 4))
    multi = "/".join(segs[:-1] + ["*"])          # same string, several file types
    searches = [star, multi, "/".join(segs[:3]) + "/**", "/".join(segs[:2]) + "/*", "/".join(segs[:-1]) + "/" + (sorted(model.alias)[0] if model.alias else "*"),
                "/".join(segs[:5] + [">"] + segs[6:]),
                "/".join(segs[:2] + ["*", ">"] + ["*"] * (len(segs) - 4))]      # '>' followed by '*': several candidates tie on the '>' value
    untyped = ["bla/bla", "", segs[0] + "/zz", "a:b:c"]
    t1 = model.natural(f1).name
    uris = [t1 + ":" + f1] + [t.name + ":" + multi for t in model.all_types(multi)]
    queries = [f1 + "?" + model.natural(f1).keys[4] + "=" + segs[4], "/".join(segs[:5]) + "?version=*", segs[0] + "?foo=bar"]
    for i, s in enumerate(typed + searches[:3] + untyped + uris + queries):
        add("Sid:%d" % i, {"f": "Sid", "args": [s]}, group="Sid:%s" % s)
    for i, s in enumerate(typed[:3]):
        add("Sid_kw:%d" % i, {"f": "Sid", "kw": {"sid": s}}, group="Sid:%s" % s)
        fields = list(model.natural(s).fields(s).items())
        add("Sid_fields:%d" % i, {"f": "Sid", "kw": {"fields": dict(fields)}}, group="Sid:%s" % s)
        add("Sid_fields_rev:%d" % i, {"f": "Sid", "kw": {"fields": dict(reversed(fields))}}, group="Sid:%s" % s)
        add("Sid_query:%d" % i, {"f": "Sid", "kw": {"query": "&".join("%s=%s" % kv for kv in fields)}}, group="Sid:%s" % s)
    # paths
    dflt = lab.default_config
    for i, e in enumerate(typed[:4]):
        for c in lab.configs:
            p, _f = lab.trees.path_of(c, e)
            if p is None:
                continue
            g = "SidPath:%s:%s" % (e, c)
            add("Sid_path_kw:%d:%s" % (i, c), {"f": "Sid", "kw": {"path": p, "config": c}}, group=g)
            add("Sid_path_Path:%d:%s" % (i, c), {"f": "Sid", "kw": {"path": p, "config": c, "path_as_Path": True}}, group=g)
            add("Sid_path_pos:%d:%s" % (i, c), {"f": "Sid", "args": [None, None, None, p, c]}, group=g)
            if c == dflt:
                add("Sid_path_noconf:%d" % i, {"f": "Sid", "kw": {"path": p}}, group=g)
            # a path of the other configuration asked under this one
            for c2 in lab.configs:
                if c2 != c:
                    add("Sid_path_cross:%d:%s:%s" % (i, c, c2), {"f": "Sid", "kw": {"path": p, "config": c2}})
            gp = "path:%s:%s" % (e, c)
            add("path_pos:%d:%s" % (i, c), {"f": "path", "sid": e, "args": [c]}, group=gp)
            add("path_kw:%d:%s" % (i, c), {"f": "path", "sid": e, "kw": {"config": c}}, group=gp)
            if c == dflt:
                add("path_default:%d" % i, {"f": "path", "sid": e}, group=gp)
                add("path_None:%d" % i, {"f": "path", "sid": e, "args": [None]}, group=gp)
    # an UNTYPED Sid whose string reads like the uri of a typed one (unknown prefix before a valid uri): asking it must not
    # change what the typed Sid answers
    for i, e in enumerate(typed[:2]):
        te = model.natural(e)
        uri = te.name + ":" + e
        add("Sid_lookalike:%d" % i, {"f": "Sid", "args": ["zz:" + uri]})
        add("path_lookalike:%d" % i, {"f": "path", "sid": "zz:" + uri})
        add("path_lookalike_cfg:%d" % i, {"f": "path", "sid": "zz:" + uri, "args": [lab.configs[-1]]})
        add("path_of_uri:%d" % i, {"f": "path", "sid": uri})
        add("path_of_uri_cfg:%d" % i, {"f": "path", "sid": uri, "args": [lab.configs[-1]]})
        add("match_lookalike:%d" % i, {"f": "match", "sid": "zz:" + uri, "search": e})
    # the cached building blocks of unfold_search, asked directly (public functions of spil.sid.core.utils)
    for i, sc in enumerate([multi, "/".join(segs[:3]) + "/**", f1]):
        add("expand:%d" % i, {"f": "expand", "search": sc})
        add("expand_extrapolated:%d" % i, {"f": "expand", "search": sc, "args": [True]})
        add("simple_typing:%d" % i, {"f": "simple_typing", "search": sc.replace("/**", "/*")})
    # searches that raise SpilException by contract (untypable root before '**', two '**'): the same answer every time they are asked
    for i, sc in enumerate(["zz/**", segs[0] + "/**/**", "zz/yy/**/" + segs[-1]]):
        add("unfold_raising:%d" % i, {"f": "unfold", "search": sc}, group="unfold_raising:%d" % i)
        add("unfold_raising_again:%d" % i, {"f": "unfold", "search": sc, "pre": [{"f": "unfold", "search": sc}]}, group="unfold_raising:%d" % i)
        add("find_raising:%d" % i, {"f": "find", "finder": "list", "search": sc})
        add("match_raising:%d" % i, {"f": "match", "sid": f1, "search": sc})
    # unfold_search: every flag combination, positional and keyword
    for i, s in enumerate(searches):
        for du in (False, True):
            for de in (False, True):
                g = "unfold:%s:%s:%s" % (s, du, de)
                add("unfold_pos:%d:%d%d" % (i, du, de), {"f": "unfold", "search": s, "args": [du, de]}, group=g)
                add("unfold_kw:%d:%d%d" % (i, du, de), {"f": "unfold", "search": s, "kw": {"do_uniquify": du, "do_extrapolate": de}}, group=g)
                if i in (0, 2):
                    # the first flag by position, the second by keyword: the same call
                    add("unfold_mixed:%d:%d%d" % (i, du, de), {"f": "unfold", "search": s, "args": [du], "kw": {"do_extrapolate": de}}, group=g)
                if not du and not de:
                    add("unfold_plain:%d" % i, {"f": "unfold", "search": s}, group=g)
                    add("unfold_sid:%d" % i, {"f": "unfold", "search": s, "as_sid": True}, group=g)
                if de and not du:
                    add("unfold_kw_de:%d" % i, {"f": "unfold", "search": s, "kw": {"do_extrapolate": True}}, group=g)
    if model.alias:
        leafk = model.leaf_keys.get(model.basetype(model.natural(f1).name))
        for i, al_ in enumerate(sorted(model.alias)[:2]):
            q = "%s=%s" % (leafk, al_)
            add("unfold_alias_filter:%d" % i, {"f": "unfold", "search": "/".join(segs[:-2] + ["*"]) + "?" + q})
            add("find_alias_filter:%d" % i, {"f": "find", "finder": "list", "search": "/".join(segs[:-2] + ["*"]) + "?" + q})
            add("Sid_alias_query:%d" % i, {"f": "Sid", "args": ["/".join(segs[:-1]) + "?" + q]})
            add("Sid_alias_query_uri:%d" % i, {"f": "Sid", "args": [model.natural("/".join(segs[:-1])).name + ":" + "/".join(segs[:-1]) + "?" + q]})
    # the same '/**' path part with different (and multi-valued) filters: what the expansion remembers must not include the filter
    t1keys = model.natural(f1).keys
    for i, k in enumerate([k for k in t1keys[4:] if k != t1keys[-1]][:3]):
        v = segs[t1keys.index(k)]
        v2 = f2.split("/")[t1keys.index(k)] if len(f2.split("/")) > t1keys.index(k) else v
        for j, q in enumerate(["%s=%s" % (k, v), "%s=%s,%s" % (k, v, v2 if v2 != v else "zz")]):
            sq = "/".join(segs[:3]) + "/**?" + q
            add("unfold_dstar_filter:%d:%d" % (i, j), {"f": "unfold", "search": sq})
            add("find_dstar_filter:%d:%d" % (i, j), {"f": "find", "finder": "list", "search": sq})
    # a search Sid whose query adds the NEXT level's key with a symbol: several sibling types fit, the old one does not
    for i, e in enumerate(typed[2:] + ["/".join(segs[:3] + ["*"] + segs[4:-1])]):
        te = model.natural(e)
        if te is None:
            continue
        nxt = sorted({t.keys[len(te.keys)] for t in model.templates if len(t.keys) == len(te.keys) + 1 and t.keys[:len(te.keys)] == te.keys})
        for k in nxt[:1]:
            sq = "%s?%s=*" % (e, k)
            add("Sid_next_level_symbol:%d" % i, {"f": "Sid", "args": [sq]}, group="Sid:%s" % sq)
            add("unfold_next_level_symbol:%d" % i, {"f": "unfold", "search": sq})
            add("get_with_next_level_symbol:%d" % i, {"f": "sid_op", "sid": e, "op": "get_with_query", "query": "%s=*" % k})
    for i, s in enumerate(searches[:4]):
        add("match:%d" % i, {"f": "match", "sid": f1, "search": s})
        add("match2:%d" % i, {"f": "match", "sid": f2, "search": s})
    finders = ["list"] + ["paths:" + c for c in lab.configs] + ["all"] + ["all:" + c for c in lab.configs if c != dflt][:1]
    for fd in finders:
        fs = fd != "list"
        for i, s in enumerate([searches[0], searches[2], searches[5], f1, searches[6]]):
            add("find:%s:%d" % (fd, i), {"f": "find", "finder": fd, "search": s, "as_set": fs}, group="find:%s:%d" % (fd, i), fs=fs)
            add("find_str:%s:%d" % (fd, i), {"f": "find", "finder": fd, "search": s, "kw": {"as_sid": False}, "as_set": fs}, fs=fs)
            add("find_one:%s:%d" % (fd, i), {"f": "find", "finder": fd, "search": s, "mode": "one", "as_set": fs}, fs=fs)
            if i in (0, 1):
                # same answer when the result generator is read in two parts with another (overlapping) search in between
                add("find_interleaved:%s:%d" % (fd, i), {"f": "find_interleaved", "finder": fd, "search": s, "k": 1,
                                                          "other_search": searches[2] if i == 0 else searches[0], "as_set": fs},
                    group="find:%s:%d" % (fd, i), fs=fs)
            add("exists:%s:%d" % (fd, i), {"f": "find", "finder": fd, "search": s, "mode": "exists"}, fs=fs)
        add("partial_keep:%s" % fd, {"f": "find_partial", "finder": fd, "search": searches[2], "k": 2, "keep": True, "as_set": fs}, fs=fs)
        add("partial_drop:%s" % fd, {"f": "find_partial", "finder": fd, "search": searches[0], "k": 1, "keep": False, "as_set": fs}, fs=fs)
    # levels answered from constants only: the ORDER of the answer is deterministic (typed searches in order, constants in order)
    for i, sc in enumerate([segs[0] + "/*", "*/*", segs[0] + "/*/*"]):
        add("find_const_ordered:%d" % i, {"f": "find", "finder": "all", "search": sc}, fs=False)
        add("find_one_const_ordered:%d" % i, {"f": "find", "finder": "all", "search": sc, "mode": "one"}, fs=False)
    # a NEW list Finder that builds the hierarchy of a leaf-only list itself, asked more than once per process
    for i, sc in enumerate([searches[0], "/".join(segs[:2]) + "/*", "/".join(segs[:3]) + "/**"]):
        add("find_extrapolated_list:%d" % i, {"f": "find", "finder": "list_extrap_new", "search": sc}, group="find_extrapolated_list:%d" % i)
        add("find_extrapolated_list_second:%d" % i, {"f": "find", "finder": "list_extrap_new", "search": sc,
                                                      "pre": [{"f": "find", "finder": "list_extrap_new", "search": "/".join(segs[:2]) + "/*"}]},
            group="find_extrapolated_list:%d" % i)
    add("find_default_paths", {"f": "find", "finder": "paths", "search": searches[0], "as_set": True}, group="find:paths:%s:0" % dflt, fs=True)
    for i, e in enumerate(typed[:3]):
        add("sid_exists:%d" % i, {"f": "sid_op", "sid": e, "op": "exists"}, fs=True)
        add("sid_children:%d" % i, {"f": "sid_op", "sid": e, "op": "children"}, fs=True)
        add("sid_parent:%d" % i, {"f": "sid_op", "sid": e, "op": "parent"})
        add("sid_get_with:%d" % i, {"f": "sid_op", "sid": e, "op": "get_with", "kw": {model.natural(e).keys[-1]: "*"}})
    add("sid_get_last", {"f": "sid_op", "sid": f1, "op": "get_last", "key": "version"}, fs=True)
    # data changing calls
    new_ents = []
    t = model.natural(f1)
    for k in range(3):
        s2 = list(segs)
        s2[3] = "created%d" % k
        e = "/".join(s2)
        if model.natural(e) is not None:
            new_ents.append(e)
            add("create:%d" % k, {"f": "create", "sid": e, "configs": list(lab.configs)}, fs=True)
    vi = t.keys.index("version") if "version" in t.keys else None
    if vi is not None and vi + 1 < len(segs):
        vr = random.Random(5)
        for _ in range(50):
            nv = lab.vocab.value(t, vi, vr)
            if nv != segs[vi] and "*" not in nv and ">" not in nv:
                break
        e = "/".join(segs[:vi] + [nv])
        if model.natural(e) is not None and e not in ents:
            new_ents.append(e)
            add("create:version", {"f": "create", "sid": e, "configs": list(lab.configs)}, fs=True)
        # a level that the configuration answers from constants below a searched parent (state under '*' versions)
        st_search = "/".join(segs[:vi] + ["*", segs[vi + 1]])
        add("find_all_constants_level", {"f": "find", "finder": "all", "search": st_search, "as_set": True}, fs=True)
        add("find_all_constants_level_one", {"f": "find", "finder": "all", "search": st_search, "mode": "exists"}, fs=True)
    # a list source the client appends to (a data change that is no file-system change)
    live_new = "/".join(segs[:3] + ["appended"])
    add("append_live", {"f": "append_live", "sid": live_new}, fs=True)
    for i, sc in enumerate(["/".join(segs[:3]) + "/*", live_new, "/".join(segs[:2]) + "/*/a*", "/".join(segs[:3]) + "/>"]):
        add("find_live:%d" % i, {"f": "find", "finder": "list_live", "search": sc}, fs=True)
        add("exists_live:%d" % i, {"f": "find", "finder": "list_live", "search": sc, "mode": "exists"}, fs=True)
    add("find_created", {"f": "find", "finder": "paths:" + dflt, "search": "/".join(segs[:3] + ["created*"]), "as_set": True}, fs=True)
    add("find_created_all", {"f": "find", "finder": "all", "search": "/".join(segs[:3] + ["*"]), "as_set": True}, fs=True)
    add("filler", {"f": "filler", "n": 140, "prefix": "/".join(segs[:3]) + "/filler", "path_prefix": lab.trees.path_of(dflt, "/".join(segs[:3]))[0] + "/filler",
                   "config": dflt})
    return calls, new_ents


def shuffled(lst):
    """The list a client hands to FindInList is in no particular order (deterministic here: same in every worker)."""
    lst = list(lst)
    random.Random(77).shuffle(lst)
    return lst


class Server:
    def __init__(self, env, opts):
        here = os.path.dirname(os.path.dirname(os.path.abspath(__file__)))
        self.p = subprocess.Popen([sys.executable, os.path.join(here, "lib", "forkserver.py"), json.dumps(opts)],
                                  stdin=subprocess.PIPE, stdout=subprocess.PIPE, stderr=subprocess.DEVNULL, env=env, text=True, bufsize=1)
        self.hello = json.loads(self.p.stdout.readline())

    def run(self, specs, stats=False):
        self.p.stdin.write(json.dumps({"calls": specs, "stats": stats}) + "\n")
        self.p.stdin.flush()
        line = self.p.stdout.readline()
        return json.loads(line)

    def close(self):
        try:
            self.p.stdin.write(json.dumps({"quit": True}) + "\n")
            self.p.stdin.flush()
            self.p.wait(timeout=10)
        except Exception:
            self.p.kill()


def worker(args):
    from lib.findlab import Lab
    from lib import universe
    rec = Rec("C13")
    lab = Lab(4242)                      # deterministic universe: identical in every worker / hash seed
    ents = universe.gen_universe(random.Random(4242), lab.model, lab.vocab, n_leaves=60, names=["ophelia", "yorick"])
    # the trees of the path configurations do not hold the same entities: some more exist in the default configuration only
    # (so that "which tree answered" is visible in the result of every Finder that is asked with or without a configuration)
    corner = sorted(e for e in ents if len(e.split("/")) >= 7)
    only_default = sorted({"/".join(e.split("/")[:5] + ["v777"] + e.split("/")[6:]) for e in corner[:40]} - set(ents))
    only_default = [e for e in only_default if lab.model.natural(e) is not None][:12]
    lab.new_universe(ents=ents, names=["ophelia", "yorick"], only_default=only_default)
    root = lab.trees.pms[lab.default_config].root
    testing = os.path.dirname(os.path.dirname(root.rstrip("/")))     # .../SPIL_PROJECTS
    saved = testing + "__c13base"
    shutil.rmtree(saved, ignore_errors=True)
    shutil.copytree(testing, saved, symlinks=True)

    def restore():
        shutil.rmtree(testing, ignore_errors=True)
        shutil.copytree(saved, testing, symlinks=True)

    calls, new_ents = build_alphabet(lab, ents, root)
    byname = {c["name"]: c for c in calls}
    conf_dir = os.environ.get("VERIF_CONF_DIR", "")

    def norm(res):
        return json.dumps(res, sort_keys=True, default=str).replace(conf_dir, "<CONF>")

    env = dict(os.environ)
    max_size = args.get("max_size") or (args.get("replay") or {}).get("max_size") or 0
    srv = Server(env, {"max_size": max_size, "ctx": {"list": shuffled(sorted(lab.exists[lab.default_config])), "leaves": shuffled(sorted(ents))}})
    rng = random.Random(args.get("seed", 0))
    out_fresh = {}
    try:
        if "replay" in args:
            c = args["replay"]
            rec.ev()
            seq = c.get("history", [])
            if c.get("group"):
                # equivalent spellings: ask each spelling in its own fresh child
                vals = {}
                for n in c.get("calls", []):
                    if n in byname:
                        vals[n] = norm(srv.run([byname[n]["spec"]])["results"][0])
                if len(set(vals.values())) > 1:
                    rec.violation("equivalent_spellings_differ", dict(c), json.dumps({k: v[:200] for k, v in vals.items()})[:900])
            elif seq:
                judge_history(rec, srv, byname, seq, restore, norm, lab, {}, {k: v for k, v in c.items() if k in ("hashseed", "max_size")},
                              reduced=bool(max_size))
            elif c.get("call") in byname:
                # a call whose fresh result differs between hash seeds: show it under this replay's hash seed
                rec.sample({"call": c["call"], "result": norm(srv.run([byname[c["call"]]["spec"]])["results"][0])[:400]})
            return rec.result()
        # ---- fresh results on the base state (one child per call)
        fresh = {}
        for c in calls:
            if c["spec"]["f"] == "create":
                continue
            r = srv.run([c["spec"]])
            if "_failed" in r:
                rec.inconclusive.append("fresh call failed: %s %s" % (c["name"], r["_failed"]))
                continue
            fresh[c["name"]] = norm(r["results"][0])
            out_fresh[c["name"]] = (digest(fresh[c["name"]]), fresh[c["name"]][:300])
            restore() if c["fs"] and c["spec"]["f"] in ("create",) else None
        # ---- equivalent spellings
        groups = {}
        for c in calls:
            if c["name"] in fresh:
                groups.setdefault(c["group"], []).append(c["name"])
        for g, names in groups.items():
            if len(names) < 2:
                continue
            rec.count("spelling_groups")
            vals = {fresh[n] for n in names}
            if len(vals) > 1:
                rec.violation("equivalent_spellings_differ", {"group": g, "calls": names, "history": []},
                              json.dumps({n: fresh[n][:200] for n in names})[:900])
        # ---- truly fresh interpreters for a sample
        sample = rng.sample(sorted(fresh), min(args.get("fresh_samples", 6), len(fresh)))
        mods = sorted(set(lab.conf.path_configs.values()))
        for k_, n in enumerate(sample):
            # (every other fresh interpreter has imported the configuration modules of the path configurations BEFORE spil: a process
            #  that looked at its configuration first must get the same answers)
            pre = ("import importlib\n" + "".join("importlib.import_module(%r)\n" % m_ for m_ in (mods if k_ % 4 == 1 else list(reversed(mods))))) if k_ % 2 else ""
            if pre:
                rec.count("true_fresh_config_modules_imported_first")
            code = (pre + "import json,sys\nsys.path.append(%r)\nimport spil\nfrom lib import c13calls\nc13calls.CTX.update(%r)\n"
                    "print('RESULT'+json.dumps(c13calls.exec_call(%r), default=str))" % (
                        os.path.dirname(os.path.dirname(os.path.abspath(__file__))), {"list": shuffled(sorted(lab.exists[lab.default_config])), "leaves": shuffled(sorted(ents))}, byname[n]["spec"]))
            p = subprocess.run([sys.executable, "-c", code], stdout=subprocess.PIPE, stderr=subprocess.PIPE, timeout=120, env=env)
            lines = [l for l in p.stdout.decode().splitlines() if l.startswith("RESULT")]
            if not lines:
                rec.inconclusive.append("true fresh interpreter failed for %s" % n)
                continue
            rec.count("true_fresh")
            tf = norm(json.loads(lines[0][6:]))
            if tf != fresh[n]:
                rec.violation("fork_server_differs_from_fresh_interpreter", {"call": n, "history": [], "config_modules_first": bool(pre)},
                              "%s vs %s" % (tf[:300], fresh[n][:300]))
        # ---- which questions does each data change affect ? (fresh children on the changed state)
        state_fresh = {(): fresh}
        affected = {}
        for c in calls:
            if c["spec"]["f"] not in ("create", "append_live"):
                continue
            srv.run([c["spec"]])
            fr_c = state_fresh.setdefault((c["name"],), {})
            for x in calls:
                if x["fs"] and x["spec"]["f"] not in ("create", "append_live"):
                    rr = srv.run([c["spec"], x["spec"]]) if c["spec"]["f"] == "append_live" else srv.run([x["spec"]])
                    if c["spec"]["f"] == "append_live" and "_failed" not in rr:
                        rr = {"results": rr["results"][1:]}
                    if "_failed" not in rr:
                        fr_c[x["name"]] = norm(rr["results"][0])
                        if fr_c[x["name"]] != fresh.get(x["name"]):
                            affected.setdefault(c["name"], []).append(x["name"])
            restore()
        rec.count("affected_question_pairs", sum(len(v) for v in affected.values()))
        # ---- histories
        names = [c["name"] for c in calls]
        for h in range(args["histories"]):
            L = rng.randint(2, 50)
            seq = [rng.choice(names) for _ in range(L)]
            if rng.random() < 0.4:
                seq.insert(rng.randrange(len(seq)), "filler")
            if rng.random() < 0.35:
                # the same question before and after a data change, in one process
                cs = sorted(affected) or [c["name"] for c in calls if c["spec"]["f"] == "create"]
                c_ = rng.choice(cs)
                xs = affected.get(c_) or [c["name"] for c in calls if c["fs"] and c["spec"]["f"] != "create"]
                x_ = rng.choice(xs)          # a question whose answer this data change alters
                i1 = rng.randrange(len(seq) + 1)
                seq.insert(i1, x_)
                i2 = rng.randrange(i1 + 1, len(seq) + 1)
                seq.insert(i2, c_)
                seq.insert(rng.randrange(i2 + 1, len(seq) + 1), x_)
                rec.count("sandwich_histories")
            rec.ev()
            rec.count("histories")
            if any(n.startswith("create") for n in seq):
                rec.count("histories_with_create")
            judge_history(rec, srv, byname, seq, restore, norm, lab, state_fresh, {"hashseed": args.get("hashseed"), "max_size": args.get("max_size")},
                          reduced=bool(args.get("max_size")))
            if h == 0:
                rec.sample({"history": seq[:12], "hashseed": args.get("hashseed"), "max_size": args.get("max_size") or "default"})
    finally:
        srv.close()
        restore()
        shutil.rmtree(saved, ignore_errors=True)
        lab.trees.reset()
    res = rec.result()
    res["fresh"] = out_fresh
    res["alphabet_size"] = len(calls)
    return res


def judge_history(rec, srv, byname, seq, restore, norm, lab, state_fresh, case, reduced=False):
    """Runs the whole history in ONE child, then compares every position with the fresh result on the same data state."""
    specs = [byname[n]["spec"] for n in seq if n in byname]
    seq = [n for n in seq if n in byname]
    r = srv.run(specs, stats=True)
    if "_failed" in r:
        rec.inconclusive.append("history child failed: " + r["_failed"])
        restore()
        return
    st = r.get("stats", {})
    sp = st.get("spil", {})
    rec.count("cache_hits", sp.get("hits", 0))
    rec.count("cache_misses", sp.get("misses", 0))
    if reduced:
        rec.count("evictions_reduced", sp.get("evictions", 0))
    else:
        rec.count("evictions_default", sp.get("evictions", 0))
    for k, v in st.get("resolva", {}).items():
        if isinstance(v, dict) and v.get("max") and v.get("misses", 0) > v["max"]:
            rec.count("resolva_overflow")
    results = [norm(x) for x in r["results"]]
    # data state at each position
    created = []
    states = []
    for n in seq:
        states.append(tuple(sorted(created)))
        if (n.startswith("create:") or n == "append_live") and n not in created:
            created.append(n)
    restore()
    done_before = []
    for i, (n, res, stt) in enumerate(zip(seq, results, states)):
        c = byname[n]
        if n == "append_live":
            done_before.append(n)
            continue
        if n.startswith("create:"):
            exp = "true" if n not in stt else None
            if exp and res != exp:
                rec.violation("create_failed_in_history", dict(case, history=seq[:i + 1], call=n), res[:300])
            done_before.append(n)
            continue
        key = stt if c["fs"] else ()
        fr = state_fresh.setdefault(key, {})
        if n not in fr:
            # fresh child on that data state: replay the creates (real writer, in their own child), then ask
            pre = [byname[x]["spec"] for x in key if x.startswith("create:")]
            if pre:
                srv.run(pre)                 # the data change, in its own child
            # (a change of the client's own list lives in the process: it is repeated in the fresh child that asks)
            same = [byname[x]["spec"] for x in key if x == "append_live"]
            rr = srv.run(same + [c["spec"]])        # the question, in a fresh child on that state
            restore()
            if "_failed" in rr:
                rec.inconclusive.append("fresh-on-state failed for %s" % n)
                continue
            fr[n] = norm(rr["results"][-1])
        rec.count("judged_calls")
        for a in set(done_before):
            if a != n:
                rec.nt(a + ">" + n)
        if res != fr[n]:
            rec.violation("answer_depends_on_history", dict(case, history=seq[:i + 1], call=n, state=list(key)),
                          "after history: %s ; fresh: %s" % (res[:400], fr[n][:400]))
            return
        done_before.append(n)
