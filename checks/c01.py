"""C01 — a string is typed exactly as the configured templates say, else stays untyped.

Monitor M-sid on sid_factory.sid_factory judges EVERY Sid built from a string in the process
against R1 (own segment-wise template matcher over the live configuration).
"""
import random

from lib import driver
from lib.rec import Rec

LEVEL = "exploration"
RULE = ("G1: valid strings of every configured type (values sampled from the per-key value sets read from the live "
        "templates) and their mutation classes (near-miss, +/-segments, empty segments, search symbols, uri prefixes "
        "incl. multi-colon, control characters), 0..12 segments; every Sid(...) call in the process is judged by the "
        "M-sid monitor against the R1 template matcher. Non-trivial = distinct input that the oracle types, or a "
        "single-segment near-miss / uri-prefixed form of a typed string.")
ASSUME = ["R1 re-implements 'first template, in configuration order, whose every placeholder pattern fully matches its segment' "
          "with re.fullmatch per segment; Python's re is trusted",
          "an untyped Sid built from 'type:body' may keep either the whole input or the body as its string (statement silent)",
          "strings containing '?' are only judged for 'does not raise' here (C04/C07 own them)"]

BUDGET = {"quick": 40000, "thorough": 2400000}
NSHARDS = 16


def shard_args(tier, seed):
    n = BUDGET[tier] // NSHARDS
    shards = [{"n": n, "seed": seed * 1000 + i, "tier": tier} for i in range(NSHARDS)]
    if tier == "thorough":
        shards.append({"n": 0, "seed": seed, "tier": tier, "suite": True})    # the repository's own tests under the M-sid monitor
    return shards


def floors(m, tier):
    return {
        "M-sid evaluations": (m.monitor.get("M-sid", 0), BUDGET[tier] // 2),
        "typed by oracle": (m.counters.get("oracle_typed", 0), 2000),
        "untyped by oracle": (m.counters.get("oracle_untyped", 0), 2000),
        "forced-type cases": (m.counters.get("forced_known", 0), 500),
        "Sid-object histories": (m.counters.get("sid_object_histories", 0), 500),
    }


def run(snap, tier, seed, t0, replay):
    return driver.simple_run("C01", snap, tier, seed, t0, replay, LEVEL, RULE, ASSUME, shard_args, floors_fn=floors)


# ------------------------------------------------------------------------------------------ worker
def make_judge(model, rec, Sid):
    def judge(s, res, exc, origin):
        """s: the string the Sid was built from; res: the Sid (or None when exc)."""
        rec.mon("M-sid")
        case = {"s": s, "origin": origin}
        if exc is not None:
            rec.violation("raised", case, "%s: %s" % (type(exc).__name__, exc))
            return
        if not isinstance(s, str):
            return
        query_tail = None
        if "?" in s:
            # a string with a query tail: when the part before the '?' fits no (or not the forced) template the Sid is untyped and
            # keeps the WHOLE input verbatim; when it is typed the outcome is C04's subject
            s_full = s
            s, query_tail = s.split("?", 1)
        try:
            got = {"type": res.type, "fields": list(res.fields.items()), "str": str(res), "bool": bool(res), "len": len(res)}
        except Exception as e:  # observing must not fail either
            rec.violation("observation_raised", case, "%s: %s" % (type(e).__name__, e))
            return
        forced = None
        body = s
        if ":" in s:
            forced, body = s.split(":", 1)
        case["got_type"] = got["type"]
        if body.endswith("\n"):
            # witness detail for the known-finding classifier (mechanism: '$' matches before one trailing newline)
            if forced in model.by_name:
                case["type_without_trailing_nl"] = forced if model.accepts(forced, body[:-1]) else None
            elif forced is None or forced == "":
                t0_ = model.natural(body[:-1])
                case["type_without_trailing_nl"] = t0_.name if t0_ else None
        if forced is None:
            t = model.natural(s)
        elif forced == "":
            rec.unspec("empty_forced_type")
            if query_tail is not None:
                return
            # internal consistency only
            if got["bool"] and not model.accepts(got["type"], got["str"]):
                rec.violation("inconsistent_typed", case, str(got))
            return
        elif forced in model.by_name:
            rec.count("forced_known")
            t = model.by_name[forced] if model.accepts(forced, body) else None
        else:
            rec.count("forced_unknown")
            t = None
        if query_tail is not None:
            if t is not None or (body == "" and query_tail != ""):
                # (typed base: C04; an EMPTY base with a query is the "build a Sid from a query" form: C02)
                rec.unspec("has_query")
                return
            rec.count("untyped_with_query_tail")
            case = dict(case, s=s_full, base=s)       # (base: the part before the query, what the typing decision is about)
            bad = []
            if got["bool"] or got["type"] or got["fields"] or got["len"]:
                bad.append("expected untyped, got type=%r fields=%r" % (got["type"], got["fields"]))
            accepted = (s_full, s_full.split(":", 1)[1]) if forced is not None else (s_full,)
            if got["str"] not in accepted:
                bad.append("string %r not verbatim (%r)" % (got["str"], s_full))
            if bad:
                rec.violation("untyped_string_changed" if len(bad) == 1 and "verbatim" in bad[0] else "typed_but_oracle_untyped", case, "; ".join(bad))
            return
        if t is not None:
            rec.count("oracle_typed")
            if not t.simple:
                rec.unspec("complex_template")
                return
            exp_fields = list(zip(t.keys, body.split("/")))
            bad = []
            if got["type"] != t.name:
                bad.append("type %r != %r" % (got["type"], t.name))
            if got["fields"] != exp_fields:
                bad.append("fields %r != %r" % (got["fields"], exp_fields))
            if got["str"] != body:
                bad.append("str %r != %r" % (got["str"], body))
            if not got["bool"]:
                bad.append("bool False")
            if got["len"] != len(exp_fields):
                bad.append("len %r" % got["len"])
            if bad:
                kind = "untyped_but_oracle_typed" if not got["type"] else "typed_differently"
                rec.violation(kind, case, "; ".join(bad))
        else:
            rec.count("oracle_untyped")
            bad = []
            if got["bool"] or got["type"] or got["fields"] or got["len"]:
                bad.append("expected untyped, got type=%r fields=%r" % (got["type"], got["fields"]))
                kind = "typed_but_oracle_untyped"
            else:
                kind = "untyped_string_changed"
            if got["str"] not in ((s, body) if forced is not None else (s,)):
                bad.append("string %r not verbatim (%r)" % (got["str"], s))
            if bad:
                rec.violation(kind, case, "; ".join(bad))
    return judge


def install(rec, model):
    """Installs M-sid. Returns the judge."""
    from spil import Sid
    from spil.sid.core import sid_factory as sf
    from lib import monitors
    judge = make_judge(model, rec, Sid)

    def after(args, kwargs, res, exc, token):
        sid = args[0] if args else kwargs.get("sid")
        if sid is None or sid == "" or (args[1:] and False):
            return
        if isinstance(sid, Sid):
            if not sid:
                # an UNTYPED Sid object is not a string: C01's statement does not cover it (counted, not judged)
                rec.unspec("untyped_sid_object_argument")
                return
            s = sid.uri
            origin = "Sid(Sid)"
        elif isinstance(sid, str):
            s = sid
            origin = "Sid(str)"
        else:
            return
        judge(s, res, exc, origin)

    monitors.wrap_function(sf, "sid_factory", after)
    return judge


def worker(args):
    from spil import conf, Sid
    from lib.refmodel import SidModel
    from lib import gen
    rec = Rec("C01")
    model = SidModel(conf)
    install(rec, model)
    vocab = gen.Vocab(model)
    if "replay" in args:
        s = args["replay"]["s"]
        rec.ev()
        try:
            Sid(s)
        except Exception:
            pass
        return rec.result()
    rng = random.Random(args["seed"])
    if args.get("suite"):
        from lib import suite_shard
        suite_shard.run_repo_tests(rec)
        return rec.result()
    usable = [t for t in model.templates if vocab.usable(t)]
    lits = gen.all_values_of_other_levels(vocab, rng)
    n = args["n"]
    for it in range(n):
        t = usable[it % len(usable)] if it % 3 == 0 else rng.choice(usable)
        r = rng.random()
        if r < 0.18:
            s, cls = vocab.valid_string(t, rng), "valid"
        elif r < 0.30:
            s, _m = vocab.search_string(t, rng)
            cls = "valid_search"
        elif r < 0.72:
            base = vocab.valid_string(t, rng) if rng.random() < 0.7 else vocab.search_string(t, rng)[0]
            s, cls = gen.mutate_string(base, rng, vocab, lits)
            if rng.random() < 0.15:
                s, c2 = gen.mutate_string(s, rng, vocab, lits)
                cls += "+" + c2
        elif r < 0.92:
            base = vocab.valid_string(t, rng) if rng.random() < 0.6 else gen.mutate_string(vocab.valid_string(t, rng), rng, vocab, lits)[0]
            if rng.random() < 0.15:
                # a value containing ':' behind a type prefix: the FIRST ':' ends the prefix
                segs_ = base.split("/")
                opens_ = [i for i in range(min(len(segs_), t.nseg)) if vocab.info[t.name][i]["open"]]
                if opens_:
                    i_ = rng.choice(opens_)
                    segs_[i_] = rng.choice(["ns:", t.name + ":", ":", "a:b:"]) + segs_[i_]
                    base = "/".join(segs_)
                    rec.count("colon_value_behind_prefix")
            s, cls = gen.uri_prefix(base, t.name, rng, model)
        elif r < 0.94:
            # any string: also one with a query tail (its typing is C04's subject - here it must simply not fail)
            base = vocab.valid_string(t, rng) if rng.random() < 0.7 else gen.mutate_string(vocab.valid_string(t, rng), rng, vocab, lits)[0]
            if rng.random() < 0.3:
                base = gen.uri_prefix(base, t.name, rng, model)[0]        # (known, unknown, wrong or doubled type prefixes)
            s = base + "?" + rng.choice(["", "", "foo=bar", "a=b&c=d", "%s=zz" % t.keys[-1], "%s=*" % t.keys[0], "x", "=", "&", "foo={bar}", "a=b?c=d",
                                         "&".join("k%d=v" % i for i in range(12)), "%s=~x" % t.keys[-1], "foo=bar/baz"])
            cls = "with_query_tail"
        elif r < 0.96:
            k = rng.randint(0, 12)
            s, cls = "/".join(rng.choice(gen.NAME_POOL + gen.JUNK_SEGMENTS + lits) for _ in range(k)), "random_segments"
        else:
            s, cls = rng.choice(["", " ", "/", "//", ":", "::", "*", "**", ">", "?", "\n", "\0", "a:b:c", ":a", "a:", "*/*", "*:*"]), "tiny"
        rec.ev()
        rec.count("class:" + cls.split("+")[0])
        before = rec.unlisted_n + sum(rec.known_n.values())
        try:
            x = Sid(s)
        except Exception:
            x = None  # already recorded by the monitor
        typed = bool(x) if x is not None else False
        if typed and ":" not in s and "?" not in s and rng.random() < 0.3:
            # history: the same string asked as a Sid OBJECT of each type that accepts it, then as a string again
            # (Sid objects and strings are distinct arguments of the cached factory)
            for t2 in model.all_types(s):
                try:
                    Sid(Sid(t2.name + ":" + s))
                except Exception:
                    pass
            try:
                Sid(s)
                Sid(x)
            except Exception:
                pass
            rec.count("sid_object_histories")
        if typed or cls.startswith("near_") or cls.startswith("uri_"):
            rec.nt(s)
        if typed:
            rec.count("real_typed")
            rec.count("real_typed:" + x.type)
        if it % 997 == 0:
            rec.sample({"input": s, "class": cls, "type": x.type if x is not None else None})
    return rec.result()


def side_monitor(rec, model):
    """Installs the C01 M-sid monitor as a side monitor of another property's workload.
    Returns finalize(): folds its verdicts into `rec` (kinds prefixed 'msid:')."""
    rec1 = Rec("C01")
    install(rec1, model)

    def finalize():
        rec.mon("M-sid", rec1.monitor.get("M-sid", 0))
        for v in rec1.unlisted[:5]:
            rec.violation("msid:" + v["kind"], {"s": v["case"].get("s"), "msid": True}, v["detail"])
        if rec1.unlisted_n > 5:
            rec.count("msid_more", rec1.unlisted_n - 5)
    return finalize
