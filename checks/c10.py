"""C10 — search results obey the algebra of the search syntax (metamorphic relations between executions)."""
import itertools

from lib import driver
from lib.rec import Rec

LEVEL = "exploration"
RULE = ("G4 searches (no '>') over G5 universes on FindInList, FindInPaths(local), FindInPaths(server) and FindInAll; five rewrite rules give "
        "(search, derived searches) pairs whose REAL results are compared as sets: (1) a ',' list == union of its alternatives, (2) an alias == "
        "union of its member extensions, (3) '/**' == union over 0..n '/*' levels restricted to leaf types, (4) appending k=v on a key that "
        "every searched type has (and that the search leaves as '*') == the unfiltered results whose field k is v, (5) a literal for a '*' == "
        "the subset having that value; each universe also gets '*' at every combination of positions of the 2-4 shallow levels (FindInAll), and "
        'every third universe names beyond the BMP; plus: no duplicates, every result typed and result.match(search). Non-trivial = distinct '
        '(universe, finder, rule, search) whose left-hand result is non-empty.')
ASSUME = ["rules 4 and 5 are not judged on FindInAll for searches served by a constants Finder (a concrete constant-backed level is answered "
          "without an existence check of its parent; the statement is silent)",
          "rule 4 is applied only where the search has '*' at the filtered key in every unfolded form (a filter overlays, it does not intersect)",
          "rule 5 only for a '*' located before any '**' and whose key is not overlaid by the search's own filter", "filters with URL metacharacters are not generated"]
BUDGET = {"quick": (160, 24), "thorough": (6400, 40)}
NSHARDS = 16


def shard_args(tier, seed):
    u, k = BUDGET[tier]
    return [{"universes": max(1, u // NSHARDS), "searches": k, "seed": seed * 1000 + i, "dataconf_variant": i % 4 == 2} for i in range(NSHARDS)]


def envs(snap, shard_args_list):
    # every fourth shard runs under a second data configuration (Finders / Getters created once per path configuration)
    from lib import dataconf_variant
    return dataconf_variant.envs(snap, shard_args_list)


def floors(m, tier):
    u, k = BUDGET[tier]
    c = m.counters
    f = {"rule evaluations": (c.get("rule_evals", 0), u * k),
         "alias filters on concrete Sids": (c.get("alias_filter_on_concrete_sid", 0), u),
         "FindInConstants asked directly": (c.get("constants_finder_asked_directly", 0), u),
         "searches on a FindInConstants over an open key": (c.get("open_constants_searches", 0), u * 2),
         "... with a non-empty answer": (c.get("open_constants_nonempty", 0), u // 2)}
    for r in ("comma", "alias", "dstar", "filter", "literal", "match"):
        f["rule %s non-empty" % r] = (c.get("nonempty:" + r, 0), max(10, u // 4))
    return f


def run(snap, tier, seed, t0, replay):
    return driver.simple_run("C10", snap, tier, seed, t0, replay, LEVEL, RULE, ASSUME, shard_args, floors_fn=floors, envs_fn=envs)


def find_set(finder, s):
    from spil import SpilException
    try:
        res = [str(x) for x in finder.find(s, as_sid=False)]
    except SpilException:
        return None, None
    except Exception as e:
        return None, e
    return res, None


def derive(lab, s):
    """Yields (rule, kind, derived searches, post-filter or None)."""
    model = lab.model
    body, q = (s.split("?", 1) + [""])[:2]
    segs = body.split("/")
    tail = ("?" + q) if q else ""
    # (1) comma in a body segment
    for i, seg in enumerate(segs):
        if "," in seg:
            alts = [a.strip() for a in seg.split(",")]
            if all(alts):
                yield ("comma", ["/".join(segs[:i] + [a] + segs[i + 1:]) + tail for a in alts], None)
            break
    # (2) alias as last segment
    if segs[-1] in model.alias:
        yield ("alias", ["/".join(segs[:-1] + [m]) + tail for m in model.alias[segs[-1]]], None)
    # (3) '**' (only without a filter: a filter that adds the leaf key turns a non-leaf expansion into a leaf result)
    if segs.count("**") == 1 and segs[0] != "**" and not q:
        i = segs.index("**")
        root = "/".join(segs[:i])
        rt = model.natural(root)
        if rt is not None:
            leaf = model.leaf_keys.get(model.basetype(rt.name))
            maxn = model.max_len - (len(segs) - 1)
            ders = ["/".join(segs[:i] + ["*"] * n + segs[i + 1:]) + tail for n in range(0, maxn + 1)]

            def post(r, d, leaf=leaf):
                # "restricted to leaf types": r must be a result of a LEAF-typed form of the derived search d
                # (a list Finder also returns textual matches of non-leaf typed forms, e.g. 'x/*b' read as a node name)
                t = model.natural(r)
                if t is None or t.keys[-1] != model.leaf_keys.get(model.basetype(t.name)):
                    return False
                try:
                    forms = lab.allmodel.unfold(d)
                except Exception:
                    return True
                from lib.refmodel import gmatch
                return any(tn == t.name and gmatch(f, r) for tn, f in forms)
            yield ("dstar", ders, post)


def check_pair(rec, lab, name, finder, rule, s, ders, post, case):
    lhs, exc = find_set(finder, s)
    c = dict(case, finder=name, rule=rule, search=s, derived=ders)
    if exc is not None:
        rec.violation("finder_raised", c, repr(exc))
        return
    if lhs is None:
        return
    if len(lhs) != len(set(lhs)):
        rec.violation("duplicates", c, repr(lhs[:8]))
    rhs = set()
    for d in ders:
        r, exc = find_set(finder, d)
        if exc is not None:
            rec.violation("finder_raised", dict(c, search=d), repr(exc))
            return
        if r is None:
            return
        rhs |= {x for x in r if post is None or post(x, d)}
    rec.count("rule_evals")
    rec.count("rule:" + rule)
    if lhs:
        rec.count("nonempty:" + rule)
        rec.nt("%s|%s|%s|%s" % (case["uid"], name, rule, s))
    if set(lhs) != rhs:
        rec.violation("algebra_" + rule, c, "lhs only=%r rhs only=%r" % (sorted(set(lhs) - rhs)[:5], sorted(rhs - set(lhs))[:5]))


def check_filter_and_literal(rec, lab, name, finder, s, case):
    """Rules 4 and 5 and the match clause, from the observed result of s."""
    from spil import Sid
    rng = lab.rng
    model = lab.model
    base, exc = find_set(finder, s)
    if exc is not None:
        rec.violation("finder_raised", dict(case, finder=name, search=s), repr(exc))
        return
    if base is None:
        return
    if len(base) != len(set(base)):
        rec.violation("duplicates", dict(case, finder=name, rule="match", search=s), repr(base[:8]))
    try:
        forms = lab.allmodel.unfold(s)
    except Exception:
        return
    body, q = (s.split("?", 1) + [""])[:2]
    segs = body.split("/")
    # (6) typed + match
    if base:
        rec.count("rule_evals")
        rec.count("nonempty:match")
        for r in base[:6]:
            x = Sid(r)
            c = dict(case, finder=name, rule="match", search=s, result=r)
            if not x:
                rec.violation("untyped_result", c, r)
                continue
            try:
                if not x.match(s):
                    rec.violation("result_does_not_match_search", c, r)
            except Exception as e:
                rec.violation("match_raised", c, repr(e))
    if not forms or not base:
        return
    # (4) filter on a key every searched type has and leaves as '*'
    keysets = []
    for t, f in forms:
        T = model.by_name[t]
        fs = f.split("/")
        keysets.append({k for k, v in zip(T.keys, fs) if v == "*"})
    common = set.intersection(*keysets) if keysets else set()
    common = {k for k in common if all(k in model.by_name[t].keys for t, _f in forms)}
    if common and not q:
        k = rng.choice(sorted(common))
        vals = sorted({Sid(r).get(k) for r in base if Sid(r).get(k)})
        if vals:
            v = rng.choice(vals)
            if not any(ch in v for ch in "%+;#~ &=?,*>"):
                d = s + "?%s=%s" % (k, v)
                got, exc = find_set(finder, d)
                c = dict(case, finder=name, rule="filter", search=s, derived=[d])
                if exc is not None:
                    rec.violation("finder_raised", c, repr(exc))
                elif got is not None:
                    rec.count("rule_evals")
                    rec.count("nonempty:filter")
                    rec.nt("%s|%s|filter|%s" % (case["uid"], name, d))
                    exp = {r for r in base if Sid(r).get(k) == v}
                    if set(got) != exp:
                        rec.violation("algebra_filter", c, "missing=%r extra=%r" % (sorted(exp - set(got))[:5], sorted(set(got) - exp)[:5]))
    # (5) literal for '*'
    fkeys = {p.split("=")[0] for p in q.replace("?", "&").split("&") if "=" in p}      # ('?' is an alternative pair separator)
    stars = [i for i, seg in enumerate(segs) if seg == "*" and "**" not in segs[:i]
             and not any(len(model.by_name[t].keys) > i and model.by_name[t].keys[i] in fkeys for t, _f in forms)]
    if stars:
        i = rng.choice(stars)
        vals = sorted({r.split("/")[i] for r in base if len(r.split("/")) > i})
        if vals:
            v = rng.choice(vals)
            d = "/".join(segs[:i] + [v] + segs[i + 1:]) + (("?" + q) if q else "")
            if v not in model.alias and "," not in v:
                got, exc = find_set(finder, d)
                c = dict(case, finder=name, rule="literal", search=s, derived=[d])
                if exc is not None:
                    rec.violation("finder_raised", c, repr(exc))
                elif got is not None:
                    rec.count("rule_evals")
                    rec.count("nonempty:literal")
                    rec.nt("%s|%s|literal|%s" % (case["uid"], name, d))
                    exp = {r for r in base if r.split("/")[i] == v} if "**" not in segs else None
                    if exp is None:
                        # with a '**' to the right the position is still fixed (the star is before it)
                        exp = {r for r in base if r.split("/")[i] == v}
                    if set(got) != exp:
                        rec.violation("algebra_literal", c, "missing=%r extra=%r" % (sorted(exp - set(got))[:5], sorted(set(got) - exp)[:5]))


def model_alias(lab):
    return bool(lab.model.alias)


def add_dup_finder(lab):
    """A list source that carries some entries more than once (concatenated exports): results still never contain duplicates."""
    from spil import FindInList
    L = list(lab.list)
    lab.finders["list_dup"] = FindInList(L + L[::3] + L[::7])
    lab.finders["list_presort"] = FindInList(list(reversed(L)), do_pre_sort=True)


def add_const_finders(lab):
    """The FindInConstants instances of the live data configuration, asked directly (each is a Finder of its own)."""
    am = lab.allmodel
    for e in lab.full:
        t = lab.model.natural(e)
        if t is None:
            continue
        F = am.finder_for(t.name, e)
        if isinstance(F, am.FIC) and ("const:" + F.key) not in lab.finders:
            lab.finders["const:" + F.key] = F


def check_open_constants(rec, lab, case):
    """A FindInConstants over an OPEN key (values taken from the universe + one that exists nowhere), below the path-backed level:
    partial globs, literals and '*' on its own key must answer the constants that match, under the parents that exist (R7)."""
    from spil import FindInConstants, FindInPaths, SpilException
    rng = lab.rng
    model = lab.model
    cands = []
    for e in lab.full:
        t = model.natural(e)
        if t is not None and t.nseg >= 3 and lab.vocab.info[t.name][t.nseg - 1]["open"] and t.keys[-1] != model.leaf_keys.get(model.basetype(t.name)):
            pt = model.natural("/".join(e.split("/")[:-1]))
            if pt is not None and lab.trees.path_of(lab.default_config, "/".join(e.split("/")[:-1]))[0] is not None:
                cands.append(e)
    if not cands:
        return
    e = rng.choice(cands)
    t = model.natural(e)
    key = t.keys[-1]
    values = sorted({x.split("/")[-1] for x in cands if model.natural(x) is t})[:6] + ["nowhere"]
    F = FindInConstants(key, values, parent_source=FindInPaths())
    segs = e.split("/")
    v = segs[-1]
    for last in ("*", v, v[:1] + "*", "*" + v[-1:], "nowhere", "zz*"):
        for parent in ("/".join(segs[:-1]), "/".join(segs[:-2] + ["*"])):
            s = parent + "/" + last
            if model.natural(s) is not t:
                continue
            rec.ev()
            rec.count("open_constants_searches")
            c = dict(case, finder="const_open:" + key, values=values, search=s, rule="constants")
            try:
                got = [str(x) for x in F.find(s, as_sid=False)]
            except SpilException:
                continue
            except Exception as ex:
                rec.violation("finder_raised", c, repr(ex))
                continue
            exp = lab.allmodel.ans_find(F, s)
            if exp is None:
                continue
            if len(got) != len(set(got)):
                rec.violation("duplicates", c, repr(got[:8]))
            if set(got) != exp:
                rec.violation("constants_finder_vs_R7", c, "missing=%r extra=%r" % (sorted(exp - set(got))[:5], sorted(set(got) - exp)[:5]))
            elif got:
                rec.count("open_constants_nonempty")


def worker(args):
    from lib.findlab import Lab, filter_is_unspecified
    rec = Rec("C10")
    lab = Lab(args.get("seed", 0))
    rng = lab.rng
    if "replay" in args:
        c = args["replay"]
        rec.ev()
        lab.new_universe(ents=c["ents"], names=c.get("names"), only_default=c.get("only_default"))
        add_dup_finder(lab)
        add_const_finders(lab)
        f = lab.finders[c["finder"]]
        if c.get("rule") in ("comma", "alias", "dstar"):
            for rule, ders, post in derive(lab, c["search"]):
                if rule == c["rule"]:
                    check_pair(rec, lab, c["finder"], f, rule, c["search"], ders, post, dict(c))
        else:
            for _ in range(12):
                check_filter_and_literal(rec, lab, c["finder"], f, c["search"], dict(c))
        lab.trees.reset()
        return rec.result()
    for u in range(args["universes"]):
        nm = (rng.sample(["a", "a-b", "ab", "b", "oph", "x_rig", "a.b", "rig", "\U0001F600hero", "cafe\u0301", "B"], 3) if rng.random() < 0.5
              else sorted({"rig", "x_rig", rng.choice(["a", "b", "oph"])}))
        if u % 3 == 0:
            nm = sorted(set(nm) | {"\U0001F600hero", "\uffffz"})      # names beyond the BMP / at its end sort after every other name
        ents = lab.new_universe(names=nm)
        add_dup_finder(lab)
        add_const_finders(lab)
        uid = "%s-%d" % (args.get("seed"), u)
        case = {"ents": ents, "names": lab.names, "only_default": lab.only_default, "uid": uid}
        check_open_constants(rec, lab, case)
        # an alias given as FILTER on a concrete (symbol-free) Sid - a leaf, or its parent level - equals the union of its members
        if model_alias(lab):
            for _ in range(4):
                e = rng.choice(lab.full)
                t = lab.model.natural(e)
                leaf = lab.model.leaf_keys.get(lab.model.basetype(t.name)) if t is not None else None
                if not leaf or (t.keys[-1] != leaf and not any(u.keys[:-1] == t.keys and u.keys[-1] == leaf for u in lab.model.templates)):
                    continue
                a = rng.choice(sorted(lab.model.alias))
                s2 = "%s?%s=%s" % (e, leaf, a)
                ders = ["%s?%s=%s" % (e, leaf, m) for m in lab.model.alias[a]]
                rec.ev()
                rec.count("alias_filter_on_concrete_sid")
                for name, f in lab.finders.items():
                    if not name.startswith("const:"):
                        check_pair(rec, lab, name, f, "alias", s2, ders, None, case)
        # the shallow levels (those a data configuration may answer from constants, each from the one above): '*' at every
        # combination of positions, so that every hand-over between the Finders of two levels is asked with a symbol above it
        shallow = []
        deep = [e for e in lab.full if len(e.split("/")) >= 4]
        if deep:
            e4 = rng.choice(deep).split("/")
            for d in (2, 3, 4):
                for mask in range(1, 2 ** d):
                    shallow.append("/".join("*" if mask >> i & 1 else e4[i] for i in range(d)))
        for k in range(args["searches"] + len(shallow)):
            if k >= args["searches"]:
                s = shallow[k - args["searches"]]
                rec.count("shallow_symbol_combinations")
            else:
                s, info = lab.search(allow_last=False)
            if filter_is_unspecified(s) or ">" in s:
                continue
            rec.ev()
            finders = list(lab.finders.items())
            if k >= args["searches"]:
                finders = [(n_, f_) for n_, f_ in finders if n_ == "all" or n_.startswith("all:")] or finders
            if k % 3:
                finders = [rng.choice(finders)]
            for name, f in finders:
                for rule, ders, post in derive(lab, s):
                    if name.startswith("const:") and rule == "dstar":
                        continue    # (a constants Finder answers its own level of every typed search: the leaf restriction is not its)
                    check_pair(rec, lab, name, f, rule, s, ders, post, case)
                if name.startswith("const:"):
                    rec.count("constants_finder_asked_directly")
                    # rule 6 ("every result is a typed Sid that matches the search") applies to a constants Finder asked directly as well
                    got_c, exc_c = find_set(f, s)
                    if exc_c is not None:
                        rec.violation("finder_raised", dict(case, finder=name, search=s), repr(exc_c))
                    elif got_c:
                        from spil import Sid as _Sid
                        for r_ in got_c[:6]:
                            x_ = _Sid(r_)
                            try:
                                ok_ = bool(x_) and x_.match(s)
                            except Exception:
                                ok_ = True      # (match itself is C08's)
                            if not ok_:
                                rec.violation("result_does_not_match_search", dict(case, finder=name, rule="match", search=s, result=r_), r_)
                                break
                    continue        # (rules 4-5 need the existence model of a whole hierarchy)
                check_filter_and_literal(rec, lab, name, f, s, case)
        if u == 0:
            rec.sample({"entities": ents[:5], "search": s, "derived": [(r, d[:3]) for r, d, _p in derive(lab, s)]})
    lab.trees.reset()
    return rec.result()
