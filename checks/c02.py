"""C02 — string, fields, query and uri forms of a typed Sid denote the same Sid."""
import itertools
import random

from lib import driver
from lib.rec import Rec

LEVEL = "exploration"
RULE = ('G2: typed Sids (concrete and search) of every configured type, stratified by type x search-mask, built by natural typing from strings '
        'sampled from the per-key value sets; each is rebuilt through uri, >=3 shuffled field dicts, query (when values are query-safe), '
        'eval(repr()) and copy(); canonical string checked against R2 render; the equality law is checked on all pairs inside batches of 120 '
        'Sids that include forced-type same-string Sids. Before 8 % of the cases a Sid with the same type and fields but another string '
        '(carrying a refused query) is built first. Non-trivial = distinct typed uri; the M-sid monitor (C01 oracle) stays installed.')
ASSUME = ["query round trip only judged for values that are free of whitespace and of & = % + # ? ~ ;",
          "Sid(fields=...) of a Sid whose type was FORCED by a uri away from its natural type is not judged (quantifier: natural typing)"]
BUDGET = {"quick": 24000, "thorough": 1600000}
NSHARDS = 16
QUERY_UNSAFE = set(" \t\n\r\0&=%+#?~;")


def shard_args(tier, seed):
    n = BUDGET[tier] // NSHARDS
    return [{"n": n, "seed": seed * 1000 + i} for i in range(NSHARDS)]


def floors(m, tier):
    return {"typed sids": (m.counters.get("typed", 0), BUDGET[tier] // 3),
            "pairs": (m.counters.get("pairs", 0), 10000),
            "query round trips": (m.counters.get("query_rt", 0), 1000),
            "forced same-string pairs": (m.counters.get("same_string_diff_type_pairs", 0), 20),
            "values containing ':'": (m.counters.get("colon_in_value", 0), 100),
            "query round trips with an empty value": (m.counters.get("query_rt_with_empty_value", 0), 50)}


def run(snap, tier, seed, t0, replay):
    return driver.simple_run("C02", snap, tier, seed, t0, replay, LEVEL, RULE, ASSUME, shard_args, floors_fn=floors)


def same(a, b):
    return a == b and b == a and a.type == b.type and str(a) == str(b) and list(a.fields.items()) == list(b.fields.items())


def check_one(rec, model, Sid, s, rng, forced=False):
    """s: string (or uri when forced). Returns the Sid or None."""
    case = {"s": s}
    try:
        x = Sid(s)
    except Exception as e:
        rec.violation("Sid_raised", case, repr(e))
        return None
    if not x:
        return None
    rec.count("typed")
    rec.count("typed:" + x.type)
    rec.nt(x.uri)
    fields = x.fields
    # canonical rendering
    try:
        canon = model.render(x.type, fields)
        if str(x) != canon:
            rec.violation("string_not_canonical", case, "%r != %r" % (str(x), canon))
    except KeyError as e:
        rec.violation("fields_do_not_fit_type", case, repr(e))
    forms = []
    forms.append(("uri", lambda: Sid(x.uri)))
    forms.append(("sid_object", lambda: Sid(x)))
    forms.append(("string_again", lambda: Sid(s) if not forced else Sid(x.uri)))
    forms.append(("copy", lambda: x.copy()))
    forms.append(("repr", lambda: eval(repr(x), {"Sid": Sid})))
    unique_by_keys = model.types_of(fields) == [x.type]
    if not forced or unique_by_keys:
        if forced:
            rec.count("forced_but_unique_key_set")
        items = list(fields.items())
        for k in range(3):
            sh = items[:]
            rng.shuffle(sh)
            if k == 2:
                sh = list(reversed(items))
            forms.append(("fields", (lambda sh=sh: Sid(fields=dict(sh)))))
        if all(not (set(v) & QUERY_UNSAFE) for v in fields.values()):
            if not all(fields.values()):
                rec.count("query_rt_with_empty_value")
            rec.count("query_rt")
            forms.append(("query", lambda: Sid(query=x.as_query())))
            forms.append(("query?", lambda: Sid("?" + x.as_query())))
    if not forced:
        # the caller's dictionary (already in template order, as returned by .fields) must not be kept by the Sid
        d = dict(fields)
        try:
            y = Sid(fields=d)
            for k in list(d):
                d[k] = "CHANGED-BY-CALLER"
            d["extra"] = "x"
            rec.count("form:fields_then_caller_mutates")
            if not same(x, y):
                rec.violation("form_differs:fields_then_caller_mutates", case, "x=%r y=%r y.fields=%r" % (x.uri, y.uri, y.fields))
        except Exception as e:
            rec.violation("form_raised:fields_then_caller_mutates", case, repr(e))
    for name, fn in forms:
        rec.count("form:" + name)
        try:
            y = fn()
        except Exception as e:
            rec.violation("form_raised:" + name, case, repr(e))
            continue
        if not same(x, y):
            rec.violation("form_differs:" + name, case,
                          "x=%r y=%r (%r / %r)" % (x.uri, getattr(y, "uri", y), fields, getattr(y, "fields", None)))
    return x


def worker(args):
    from spil import conf, Sid
    from lib.refmodel import SidModel
    from lib import gen
    from checks import c01
    rec = Rec("C02")
    model = SidModel(conf)
    # C01's monitor stays on: every internally built Sid is judged too (violations there are reported under C02 kinds "msid:")
    fin = c01.side_monitor(rec, model)
    vocab = gen.Vocab(model)
    rng = random.Random(args.get("seed", 0))
    if "replay" in args:
        c = args["replay"]
        if "pair" in c:
            a, b = Sid(c["pair"][0]), Sid(c["pair"][1])
            pair_law(rec, a, b)
        else:
            check_one(rec, model, Sid, c["s"], rng, forced=":" in c["s"])
        rec.ev()
        fin()
        return rec.result()
    usable = [t for t in model.templates if vocab.usable(t)]
    n = args["n"]
    batch = []
    for it in range(n):
        t = usable[it % len(usable)]
        r = rng.random()
        if r < 0.45:
            s = vocab.valid_string(t, rng)
        else:
            s, _ = vocab.search_string(t, rng, p_sym=rng.choice([0.15, 0.4, 0.8, 1.0]))
        if rng.random() < 0.05:
            # an EMPTY value at an open level is a value ('hamlet/a/char/' is the asset '')
            sg = s.split("/")
            op = [i for i in range(min(len(sg), t.nseg)) if vocab.info[t.name][i]["open"]]
            if op:
                sg[rng.choice(op)] = ""
                s = "/".join(sg)
        rec.ev()
        if rng.random() < 0.08 and "?" not in s:
            # a Sid with the same type and fields but ANOTHER string (it carries a query that is refused) is built first:
            # the forms below must still give the canonical Sid, not that one
            try:
                Sid(s + rng.choice(["?zzkey=1", "?zzkey=1&yy=2", "?=", "?zz"]))
                rec.count("refused_query_twin_built_first")
            except Exception:
                pass        # (C01 / C04 judge what this construction itself does)
        x = check_one(rec, model, Sid, s, rng)
        if it % 1999 == 0 and x is not None:
            rec.sample({"string": s, "uri": x.uri, "query": x.as_query()})
        if rng.random() < 0.06:
            # a value containing ':' (namespaced names; also one that repeats the Sid's own type name): only reachable through a uri
            segs = vocab.valid_segments(t, rng)
            opens = [i for i in range(t.nseg) if vocab.info[t.name][i]["open"]]
            if opens and not model.is_search_string("/".join(segs)):
                i = rng.choice(opens)
                segs[i] = rng.choice([t.name + ":" + segs[i], "ns:" + segs[i], segs[i] + ":", model.templates[0].name + ":x"])
                rec.count("colon_in_value")
                y = check_one(rec, model, Sid, t.name + ":" + "/".join(segs), rng, forced=True)
        if x is not None:
            batch.append(x)
            # forced-type twins with the same string
            if rng.random() < 0.25:
                for t2 in model.all_types(s):
                    if t2.name != x.type:
                        y = check_one(rec, model, Sid, t2.name + ":" + s, rng, forced=True)
                        if y is not None:
                            batch.append(y)
            # near twin: one field changed
            if rng.random() < 0.3:
                segs = s.split("/")
                i = rng.randrange(len(segs))
                segs[i] = vocab.value(t, i, rng)
                y = Sid("/".join(segs))
                if y:
                    batch.append(y)
        if len(batch) >= 120:
            for a, b in itertools.combinations(batch, 2):
                pair_law(rec, a, b)
            # duplicates of the same Sid built separately
            for a in batch[:20]:
                pair_law(rec, a, Sid(a.uri))
            batch = []
    fin()
    return rec.result()


def pair_law(rec, a, b):
    rec.count("pairs")
    eq = (a == b)
    exp = (a.type == b.type and a.fields == b.fields)
    if str(a) == str(b) and a.type != b.type:
        rec.count("same_string_diff_type_pairs")
    if eq != exp or (b == a) != exp:
        rec.violation("equality_law", {"pair": [a.uri, b.uri]}, "==:%r expected %r" % (eq, exp))
    if eq:
        rec.count("equal_pairs")
