"""C16 — a Getter returns one record per Sid its Finder finds, in the same order."""
import json
import os

from lib import driver
from lib.rec import Rec

LEVEL = "exploration"
RULE = ('G5 trees (local and server) with random attribute data written by the harness straight into the sidecar files (own writer, path from '
        "the configuration's get_data_json_path) x G4 searches x every subset of a 3-key attribute pool x six sid_encode functions (str, uri, "
        'None, fields dict, keytype - not injective -, version - sometimes None). list(GetFromPaths(c).get(...)) is aligned one-to-one, in '
        'order, with list(FindInPaths(c).find(s)); record content is compared with the sidecar content; GetFromAll is compared with GetFromPaths '
        'on types that have a configured Getter and must yield nothing (without failing) for types configured without one; get_one / get_data / '
        "get_attr (of GetFromPaths, GetFromAll and the Sid itself; attribute names include 'last.user') are compared with the records; every "
        "second shard starts with a Getter call that names another configuration; or-lists with overlapping alternatives ('*,<project>/*/*') are "
        'asked at depths 2-5. Non-trivial = distinct (universe, search, attributes, encoder) with at least one record.')
ASSUME = ["the sidecar location comes from the live configuration (get_data_json_path); entities whose sidecar files coincide share their data",
          "GetFromAll vs GetFromPaths is compared for searches without '>'"]
BUDGET = {"quick": (96, 30), "thorough": (6400, 40)}
NSHARDS = 16
KEYS = ["comment", "frames", "author", "last.user"]       # (an attribute name is free text: dots, and words the library uses elsewhere)


def shard_args(tier, seed):
    u, k = BUDGET[tier]
    return [{"universes": max(1, u // NSHARDS), "searches": k, "seed": seed * 1000 + i, "dataconf_variant": i % 3 == 1} for i in range(NSHARDS)]


def envs(snap, shard_args_list):
    # every third shard runs under a second data configuration (Finders / Getters created once per path configuration, dispatching on 'config')
    from lib import dataconf_variant
    return dataconf_variant.envs(snap, shard_args_list)


def floors(m, tier):
    u, k = BUDGET[tier]
    c = m.counters
    return {"get() calls compared": (c.get("get_calls", 0), u * k * 6 // 10),
            "records compared": (c.get("records", 0), u * k * 2),
            "records with stored data": (c.get("records_with_data", 0), u * k // 4),
            "falsy stored values read": (c.get("falsy_values", 0), u),
            "GetFromAll comparisons": (c.get("all_calls", 0), u * k // 4),
            "types without getter": (c.get("all_no_getter", 0), u),
            "universes with an entity whose sidecar name would be too long": (c.get("universes_with_a_long_name", 0), u // 8),
            "GetFromAll(non-default config) comparisons (second data configuration)": (c.get("all_calls_non_default_config", 0), u * k // 40),
            "get_one/get_data/get_attr": (c.get("single_calls", 0), u * 5),
            "single-record calls on types without getter": (c.get("no_getter_single_calls", 0), u // 2),
            "GetFromAll.get_data compared": (c.get("GetFromAll_get_data", 0), u * 2),
            "get_data with a string / uri argument": (c.get("get_data_string_argument", 0), u * 3)}


def run(snap, tier, seed, t0, replay):
    return driver.simple_run("C16", snap, tier, seed, t0, replay, LEVEL, RULE, ASSUME, shard_args, floors_fn=floors, envs_fn=envs)


ENC = {"str": str, "uri": (lambda x: x.uri), "none": (lambda x: None),
       # the encoder is the caller's: unhashable, non-injective, sometimes-None encodings are as good as any
       "fields": (lambda x: x.fields), "keytype": (lambda x: x.keytype), "version": (lambda x: x.get("version")),
       "zero": (lambda x: 0), "empty": (lambda x: "")}       # (only None means "no sid entry")


def write_sidecars(lab, rng, conf):
    """Returns {config: {sidecar path: data}}."""
    from pathlib import Path
    store = {}
    for c in lab.configs:
        st = {}
        for e in sorted(lab.exists[c]):
            if rng.random() < 0.6:
                p, _f = lab.trees.path_of(c, e)
                if p is None:
                    continue
                dp = str(conf.get_data_json_path(Path(p)))
                data = {k: "%s:%s" % (e, k) if k != "frames" else rng.randint(1, 200) for k in KEYS if rng.random() < 0.6}
                for k in list(data):
                    if rng.random() < 0.15:
                        data[k] = rng.choice([0, False, "", [], {}, None])      # falsy stored values are values too
                try:
                    with open(dp, "w") as f:
                        json.dump(data, f)
                except OSError:
                    continue        # (the sidecar of this entity cannot exist - e.g. its name would be too long: it simply has no data)
                st[dp] = data
        store[c] = st
    return store


def stored(lab, conf, store, c, e):
    from pathlib import Path
    p, _f = lab.trees.path_of(c, e)
    if p is None:
        return None
    return store[c].get(str(conf.get_data_json_path(Path(p))), {})


def expected_record(data, sid, encname, attributes):
    d = dict(data)
    from spil import Sid
    enc = ENC[encname](Sid(sid))
    if enc is not None:
        d["sid"] = enc
    if attributes is not None:
        return {k: d.get(k) for k in attributes}
    return d


def check_get(rec, lab, conf, store, c, s, attributes, encname, case):
    from spil import GetFromPaths, FindInPaths, GetFromAll, SpilException, Sid
    cs = dict(case, search=s, config=c, attributes=attributes, enc=encname)
    try:
        found = [x for x in FindInPaths(c).find(s)]
    except SpilException:
        return
    except Exception:
        return  # C11 owns finder failures
    kw = {}
    if attributes is not None:
        kw["attributes"] = attributes
    try:
        recs = [dict(r) for r in GetFromPaths(c).get(s, sid_encode=ENC[encname], **kw)]
    except Exception as e:
        rec.violation("get_raised", cs, repr(e))
        return
    rec.count("get_calls")
    if recs:
        rec.nt("%s|%s|%s|%s|%s" % (case["uid"], c, s, attributes, encname))
    if len(recs) != len(found):
        rec.violation("record_count_differs", cs, "%d records for %d found sids" % (len(recs), len(found)))
        return
    for x, r in zip(found, recs):
        rec.count("records")
        data = stored(lab, conf, store, c, str(x)) or {}
        if data:
            rec.count("records_with_data")
            if any(v in (0, False, "", None) or v == [] or v == {} for v in data.values()) and attributes:
                rec.count("falsy_values")
        exp = expected_record(data, x.uri, encname, attributes)
        if r != exp:
            rec.violation("record_differs", dict(cs, sid=str(x)), "got %r expected %r" % (r, exp))
            return
    # single-record calls
    g = GetFromPaths(c)
    try:
        one = dict(g.get_one(s, sid_encode=ENC[encname], **kw))
        rec.count("single_calls")
        if one != (recs[0] if recs else {}):
            rec.violation("get_one_differs", cs, "%r vs %r" % (one, recs[0] if recs else {}))
        for x, r in list(zip(found, recs))[:3]:
            d = dict(g.get_data(x, sid_encode=ENC[encname], **kw))
            if d != r:
                rec.violation("get_data_differs", dict(cs, sid=str(x)), "%r vs %r" % (d, r))
            # GetFromAll's single-record calls answer like the configured Getter of that type
            if c == lab.default_config and conf.get_getter_for(x) is not None:
                da = dict(GetFromAll().get_data(x, sid_encode=ENC[encname], **kw))
                rec.count("GetFromAll_get_data")
                if da != r:
                    rec.violation("GetFromAll_get_data_differs", dict(cs, sid=str(x)), "%r vs %r" % (da, r))
            # the same Sid given as its string / its uri: the record of that Sid all the same (the encoder always gets the Sid)
            for form, arg in (("string", str(x)), ("uri", x.uri)):
                if form == "string" and Sid(str(x)) != x:
                    continue
                d2 = dict(g.get_data(arg, sid_encode=ENC[encname], **kw))
                rec.count("get_data_string_argument")
                if d2 != r:
                    rec.violation("get_data_differs", dict(cs, sid=str(x), argument=form), "%r vs %r" % (d2, r))
            full = dict(g.get_data(x))
            for k in KEYS + ["sid"]:
                if g.get_attr(x, k) != full.get(k):
                    rec.violation("get_attr_differs", dict(cs, sid=str(x), key=k), "%r vs %r" % (g.get_attr(x, k), full.get(k)))
            if c == lab.default_config and conf.get_getter_for(x) is not None:
                # get_attr of GetFromAll / of the Sid itself: "one value of the record", whatever the attribute is called
                for k in KEYS:
                    for who, va in (("GetFromAll.get_attr", GetFromAll().get_attr(x, k)), ("Sid.get_attr", x.get_attr(k))):
                        rec.count("get_attr_through_GetFromAll")
                        if va != full.get(k):
                            rec.violation("get_attr_differs", dict(cs, sid=str(x), key=k, call=who), "%r vs %r" % (va, full.get(k)))
    except Exception as e:
        rec.violation("single_call_raised", cs, repr(e))
    # GetFromAll (default path configuration; any configuration when the data configuration dispatches on it)
    if (c == lab.default_config or lab.dataconf_variant) and ">" not in s:
        try:
            if c != lab.default_config:
                rec.count("all_calls_non_default_config")
                allrecs = [dict(r) for r in GetFromAll(c).get(s, sid_encode=ENC[encname], **kw)]
            else:
                allrecs = [dict(r) for r in GetFromAll().get(s, sid_encode=ENC[encname], **kw)]
        except SpilException:
            return
        except Exception as e:
            rec.violation("GetFromAll_raised", cs, repr(e))
            return
        rec.count("all_calls")
        exp = []
        for x, r in zip(found, recs):
            gt = conf.get_getter_for(x)
            if gt is None:
                rec.count("all_no_getter")
                continue
            exp.append(r)
        # types without getter may also be types FindInPaths does not serve; compare as sequences of records
        key = lambda d: json.dumps(d, sort_keys=True, default=str)
        if sorted(map(key, allrecs)) == sorted(map(key, exp)) and list(map(key, allrecs)) != list(map(key, exp)):
            rec.violation("GetFromAll_order_differs", cs, "GetFromAll %r vs GetFromPaths %r" % (allrecs[:4], exp[:4]))
        if sorted(map(key, allrecs)) != sorted(map(key, exp)):
            rec.violation("GetFromAll_differs", cs, "GetFromAll %d records, expected %d: %r vs %r" % (len(allrecs), len(exp), allrecs[:3], exp[:3]))


def worker(args):
    from lib.findlab import Lab, filter_is_unspecified
    from spil import conf
    import itertools
    rec = Rec("C16")
    lab = Lab(args.get("seed", 0))
    rng = lab.rng
    def other_config_first():
        # the FIRST Getter call of this process names another configuration than the default one: what the later calls answer
        # must not depend on that (a data configuration that builds its Getters on first use)
        from spil import GetFromAll
        others = [c for c in lab.configs if c != lab.default_config]
        if others:
            try:
                list(GetFromAll(others[0]).get(sorted(conf.projects)[0] if getattr(conf, "projects", None) else "*"))
                GetFromAll(others[0]).get_attr(sorted(conf.projects)[0] if getattr(conf, "projects", None) else "*", "comment")
            except Exception:
                pass
            rec.count("first_getter_call_named_another_configuration")
    attr_sets = [None] + [list(c) for n in range(1, 4) for c in itertools.combinations(KEYS, n)] + [["sid"], ["sid", "comment"], ["nope"], []]
    if "replay" in args:
        c = args["replay"]
        rec.ev()
        import random
        if c.get("other_config_first"):
            other_config_first()
        lab.new_universe(ents=c["ents"], names=c.get("names"), only_default=c.get("only_default"))
        store = write_sidecars(lab, random.Random(c["data_seed"]), conf)
        check_get(rec, lab, conf, store, c["config"], c["search"], c["attributes"], c["enc"], dict(c))
        lab.trees.reset()
        return rec.result()
    import random
    ocf = args.get("seed", 0) % 2 == 1
    if ocf:
        other_config_first()
    for u in range(args["universes"]):
        ents = lab.new_universe(n_leaves=rng.choice([8, 20, 35]))
        if rng.random() < 0.3:
            # an entity whose (legal) folder name is so long that its sidecar NAME cannot exist: found by the Finder, so it has a record
            long_ent = None
            for e in sorted(lab.exists[lab.default_config]):
                t_ = lab.model.natural(e)
                if t_ is not None and lab.vocab.info[t_.name][t_.nseg - 1]["open"] and t_.keys[-1] != lab.model.leaf_keys.get(lab.model.basetype(t_.name)):
                    long_ent = "/".join(e.split("/")[:-1] + ["z" * 250])
                    break
            if long_ent and lab.model.natural(long_ent) is not None:
                try:
                    lab.trees.materialise([long_ent])
                    lab.refresh_exists([long_ent])
                    ents = sorted(set(ents) | {long_ent})
                    rec.count("universes_with_a_long_name")
                except OSError:
                    pass
        data_seed = rng.randrange(10 ** 9)
        store = write_sidecars(lab, random.Random(data_seed), conf)
        uid = "%s-%d" % (args.get("seed"), u)
        case = {"ents": ents, "names": lab.names, "only_default": lab.only_default, "uid": uid, "data_seed": data_seed,
                "dataconf_variant": lab.dataconf_variant, "other_config_first": ocf}
        for k in range(args["searches"]):
            s, info = lab.search(allow_last=(rng.random() < 0.15))
            if filter_is_unspecified(s):
                continue
            rec.ev()
            c = rng.choice(lab.configs)
            check_get(rec, lab, conf, store, c, s, rng.choice(attr_sets), rng.choice(list(ENC)), case)
        # a Sid whose name is longer than any file name can be (it cannot exist): reading it gives its 'sid' record, like any other
        from spil import GetFromPaths as _G, GetFromAll as _GA, Sid as _S
        for e0 in ents[:1]:
            long_sid = "/".join(e0.split("/")[:3] + ["y" * 300])
            if _S(long_sid):
                rec.ev()
                rec.count("reads_of_a_sid_with_an_impossible_name")
                for who, fn in (("GetFromPaths.get_data", lambda: dict(_G().get_data(long_sid))), ("GetFromAll.get_data", lambda: dict(_GA().get_data(long_sid))),
                                ("GetFromPaths.get", lambda: [dict(r) for r in _G().get(long_sid)])):
                    try:
                        got = fn()
                    except Exception as ex:
                        rec.violation("read_of_impossible_name_raised", dict(case, sid="<3 segments>/" + "y*300", call=who), repr(ex))
                        continue
                    if got not in ({"sid": long_sid}, [], [{"sid": long_sid}], {}):
                        rec.violation("read_of_impossible_name_differs", dict(case, call=who), repr(got)[:200])
        # types configured WITHOUT Getter: "yields nothing, without failing" - also through get_data / get_attr / get_one of GetFromAll
        for e1 in lab.full[:40]:
            x1 = _S(e1)
            if x1 and conf.get_getter_for(x1) is None:
                rec.ev()
                rec.count("no_getter_single_calls")
                for who, fn, empty in (("GetFromAll.get_data", lambda: _GA().get_data(e1), ({}, None)), ("GetFromAll.get_attr", lambda: _GA().get_attr(e1, "comment"), (None,)),
                                       ("GetFromAll.get_one", lambda: _GA().get_one(e1), ({}, None)), ("Sid.get_attr", lambda: x1.get_attr("comment"), (None,))):
                    try:
                        got1 = fn()
                    except Exception as ex:
                        rec.violation("call_on_type_without_getter_raised", dict(case, sid=e1, call=who), repr(ex))
                        continue
                    if got1 not in empty and dict(got1 or {}) != {}:
                        rec.violation("type_without_getter_returned_data", dict(case, sid=e1, call=who), repr(got1)[:200])
                break
        # or-lists whose alternatives OVERLAP (every entity is denoted twice), over levels with and without a Getter: the typed searches
        # of one Getter are then interleaved with searches of types that have none
        proj = ents[0].split("/")[0] if ents else "*"
        for d in (2, 3, 4, 5):
            for first in ("*,%s" % proj, "%s,*" % proj):
                rec.ev()
                rec.count("overlapping_alternatives_searches")
                check_get(rec, lab, conf, store, lab.default_config, first + "/*" * (d - 1), None, "str", case)
        # searches on types configured without getter
        for s in ("*", "*/*", "*/*/*"):
            rec.ev()
            check_get(rec, lab, conf, store, lab.default_config, s, None, "str", case)
        if u == 0:
            rec.sample({"entities": ents[:4], "search": s, "sidecars": len(store[lab.default_config])})
    lab.trees.reset()
    return rec.result()
