"""C15 — created entities exist, and attribute data reads back what was written.

History checker: every operation (create / set / update, with unique values) is executed on the real writer and
mirrored in a small sequential model {existing set, per-entity overlay}; after every operation all observables of all
Sids of the alphabet (existence through FindInPaths and Sid.exists, found-by-search, get_data, get_attr, a NEW Getter
instance, and at sampled points a NEW PROCESS) are compared with the model.
"""
import itertools
import json
import os
import random
import subprocess
import sys

from lib import driver
from lib.rec import Rec

LEVEL = "exploration"
RULE = ('Alphabet of ~34 write operations over 10 Sids taken from the live configuration (a file, its sibling differing only by the extension, '
        'the nearest two ancestor folders that have a path, a Sid whose type has no path, an untyped Sid) x 2 attribute keys, every written '
        "value unique '<history>.<step>'. Quick: every sequence of length <= 3 (exhaustive) + random sequences up to 40; thorough: length <= 4 + "
        'more random. After each operation the return value / exception and ALL observables of ALL Sids are compared with the sequential model. '
        'Values include non-ASCII text and a lone surrogate; roles include hidden names, a folder named like a sidecar, dotted siblings and two '
        'long-named siblings (paths beyond 260 characters); every second fresh-process read runs in the C locale with UTF-8 mode off. Two '
        'alphabets (two basetypes) are used, each enumerated by half of the shards. Quick: every sequence of length <= 2 + every 7th of length '
        '3; thorough: every sequence of length <= 3 + every 12th of length 4. Non-trivial = distinct operation sequence containing at least one '
        'successful write.')
ASSUME = ["two entities whose paths differ only by the extension may share one data store or not (the statement excludes that pair): both the "
          "own overlay and the merged overlay are accepted for them", "get_data of a Sid without path may be {} or only its 'sid' entry",
          "tree reset between sequences is done by the harness (rmtree of the configured root)"]
BUDGET = {"quick": (2, 320, 24, 3, 30), "thorough": (2, 24000, 160, 3, 2)}     # (exhaustive length, random sequences, fresh-process reads, sampled length, 1/k sample)
NSHARDS = 16


def shard_args(tier, seed):
    L, nrand, nfresh, Ls, kk = BUDGET[tier]
    return [{"L": L, "Ls": Ls, "sample_k": kk, "shard": i, "nshards": NSHARDS, "nrand": nrand // NSHARDS, "nfresh": max(1, nfresh // NSHARDS),
             "seed": seed * 1000 + i} for i in range(NSHARDS)]


def envs(snap, shard_args_list):
    return [snap.env(conf_dir=snap.conf_copy("w%d" % i)) for i in range(len(shard_args_list))]


def floors(m, tier):
    L, nrand, nfresh, Ls, kk = BUDGET[tier]
    c = m.counters
    return {"sequences": (c.get("sequences", 0), 8000 if tier == "quick" else 100000),
            "successful writes": (c.get("ok:set", 0) + c.get("ok:update", 0) + c.get("ok:create", 0), 5000),
            "expected SpilException observed": (c.get("refused", 0), 2000),
            "reads compared": (c.get("reads", 0), 50000),
            "fresh-process reads": (c.get("fresh_process_reads", 0), nfresh // 2),
            "overwrites of a key": (c.get("overwrite", 0), 150),
            "one dict object passed to a second successful call": (c.get("shared_dict_reused", 0), 100),
            "writes through a second Writer instance": (c.get("second_writer_calls", 0), 150),
            "updates without any key": (c.get("empty_updates", 0), 150),
            "writes given as a non-dict Mapping": (c.get("mapping_proxy_writes", 0), 150)}


def run(snap, tier, seed, t0, replay):
    def extra(m, results):
        L = BUDGET[tier][0]
        return {"exhaustive": False, "exhaustive_up_to_length": L,
                "explanation": "all sequences of length <= %d over the operation alphabet were enumerated (sharded); longer ones sampled" % L}
    return driver.simple_run("C15", snap, tier, seed, t0, replay, LEVEL, RULE, ASSUME, shard_args, floors_fn=floors, envs_fn=envs,
                             extra_cov_fn=extra)


# ------------------------------------------------------------------------------------------- alphabet
def build_alphabet(lab, which=0):
    """Returns dict role -> entity string, from the live configuration. which: index of the basetype whose first leaf type is used."""
    model, vocab, rng = lab.model, lab.vocab, random.Random(7)
    dflt = lab.default_config
    pm = lab.trees.pms[dflt]
    from lib import universe
    leaves = [t for t in universe.leaf_templates(model, vocab) if t.name in pm.templates]
    bts = []
    for u in leaves:
        if model.basetype(u.name) not in bts:
            bts.append(model.basetype(u.name))
    bt = bts[which % len(bts)]
    leaves = [u for u in leaves if model.basetype(u.name) == bt] + [u for u in leaves if model.basetype(u.name) != bt]
    t = leaves[0]
    for _ in range(200):
        f1 = vocab.valid_string(t, rng, pool=["oph.elia", "yor.ick"], small=True)   # (folder names may contain a dot)
        if model.natural(f1) is t and not model.is_search_string(f1) and f1.split("/")[-1] not in model.alias:
            break
    segs = f1.split("/")
    f2 = None
    info = vocab.info[t.name][-1]
    for v in info["lits"]:
        if v != segs[-1] and v not in model.alias and model.natural("/".join(segs[:-1] + [v])) is t:
            f2 = "/".join(segs[:-1] + [v])
            break
    anc = []
    nopath = None
    for i in range(len(segs) - 1, 0, -1):
        a = "/".join(segs[:i])
        ta = model.natural(a)
        if ta is None:
            continue
        if ta.name in pm.templates:
            anc.append(a)
        elif nopath is None:
            nopath = a
    al = {"F1": f1, "F2": f2, "V": anc[0], "T": anc[1], "N": nopath, "U": "bla/bla"}
    if len(anc) > 2:
        al["A"] = anc[2]     # the folder above the task (an open, possibly dotted, name)
        # two siblings of it whose names start with a dot ("hidden" folders are folders)
        pa = anc[2].split("/")
        for hk, hn in (("H1", ".hid1"), ("H2", ".hid2"), ("H3", ".x.data.json")):      # (H3: a folder NAMED like a data sidecar is a folder)
            h = "/".join(pa[:-1] + [hn])
            if model.natural(h) is model.natural(anc[2]):
                al[hk] = h
        # siblings whose (folder) names share the text before the last dot: folders have no "file extension", their data is their own
        for dk, dn in (("D1", "mr.smith"), ("D2", "mr.jones"), ("D3", "mr")):
            dsib = "/".join(pa[:-1] + [dn])
            if model.natural(dsib) is model.natural(anc[2]):
                al[dk] = dsib
        # two siblings with LONG names that differ only in their last characters (whole paths beyond 260 characters)
        for lk, ln in (("L1", "set_dressing_" + "x" * 205 + "_north_side"), ("L2", "set_dressing_" + "x" * 205 + "_south_side")):
            lsib = "/".join(pa[:-1] + [ln])
            if model.natural(lsib) is model.natural(anc[2]):
                al[lk] = lsib
        dd = "/".join(pa[:-1] + [".."])
        if model.natural(dd) is model.natural(anc[2]):
            al["DD"] = dd      # observed only: '..' names a folder that is there without anything having been created
    # a second, unrelated file (isolation)
    for _ in range(200):
        g = vocab.valid_string(t, rng, pool=["claudius"], small=True)
        if model.natural(g) is t and g != f1 and not model.is_search_string(g) and g.split("/")[-1] not in model.alias and g.split("/")[:-1] != segs[:-1]:
            al["G"] = g
            break
    # the same file in another state (second-to-last level): its file name differs in the middle, not only by the extension
    info2 = vocab.info[t.name][-2]
    for v in info2["lits"]:
        if v != segs[-2]:
            p_ = "/".join(segs[:-2] + [v, segs[-1]])
            if model.natural(p_) is t:
                al["P"] = p_
                break
    # a movie file next to F1 (its type shares the glob of the cache-file type when the extension is open)
    for u in leaves[1:]:
        if u.keys == t.keys:
            for v in vocab.info[u.name][-1]["lits"]:
                m_ = "/".join(segs[:-1] + [v])
                if v not in model.alias and model.natural(m_) is u:
                    al.setdefault("M", m_)
                    break
        if "M" in al:
            break
    # a sibling of every other leaf type with the same keys, in a task that nothing else creates: its ancestors must appear with it
    segs_c = list(segs)
    tasks = vocab.info[t.name][len(segs) - 4]["lits"] if len(segs) >= 4 else []
    other_task = next((v for v in tasks if v != segs[len(segs) - 4]), None)
    if other_task:
        segs_c[len(segs) - 4] = other_task
        k = 0
        for u in leaves[1:]:
            if u.keys == t.keys:
                for v in vocab.info[u.name][-1]["lits"]:
                    c_ = "/".join(segs_c[:-1] + [v])
                    if v not in model.alias and model.natural(c_) is u:
                        al["C%d" % k] = c_
                        k += 1
                        break
    return {k: v for k, v in al.items() if v}


def ops_alphabet(al):
    ops = []
    for r in al:
        if r.startswith("anc:") or r == "DD":
            continue            # observed only
        ops.append(("create", r, None))
    for r in ("F1", "V", "A"):
        if r in al:
            ops.append(("create", r, "k1"))
    for r in al:
        if r.startswith("anc:") or r.startswith("C") or r == "DD":
            continue
        if r in ("U",):
            ops.append(("set", r, "k1"))
            continue
        ops.append(("set", r, "k1"))
        if r in ("F1", "F2", "V"):
            ops.append(("set", r, "k2"))
        if r in ("F1", "T", "N", "G"):
            ops.append(("update", r, "k1"))
        if r in ("F1", "V"):
            ops.append(("setpos", r, "k1"))      # positional form set(sid, attribute, value), falsy values
        if r in ("F1", "P"):
            ops.append(("set", r, "sid"))        # an attribute that happens to be called 'sid': the record's own Sid still wins
        if r in ("H1", "D1"):
            ops.append(("set", r, "k2"))
        if r in ("F1", "V"):
            ops.append(("set_w2", r, "k2"))          # the same write through ANOTHER Writer instance (another tool, another user)
            ops.append(("set_w2", r, "k1"))
        if r in ("F1", "V", "G"):
            ops.append(("update_proxy", r, "k1"))    # data given as a read-only Mapping (the declared parameter type is Mapping)
        if r in ("F1", "T", "N"):
            ops.append(("update_empty", r, None))    # an update without any key: still fails for what does not exist
        if r in ("F1", "G", "V"):
            ops.append(("update_shared", r, "k3"))   # the client passes ONE dict object to several calls (adding a key each time)
        if r in ("G", "P"):
            ops.append(("create_shared", r, "k3"))
    return ops


FALSY = [0, False, "", [], None, 0.0]


class SeqModel:
    def __init__(self, lab, al, config):
        self.lab = lab
        self.al = al
        self.config = config
        self.existing = set()
        self.data = {}
        self.order = []     # (entity, key, value) in call order

    def has_path(self, e):
        return self.lab.trees.path_of(self.config, e)[0] is not None

    def exists(self, e):
        return e in self.existing

    def do_create(self, e, data):
        if not self.has_path(e) or e in self.existing:
            return "SpilException"
        self.existing |= self.lab.trees.closure(self.config, {e})
        if data:
            self.write(e, data)
        return True

    def do_write(self, e, data):
        if not self.has_path(e) or e not in self.existing:
            return "SpilException"
        self.write(e, data)
        return True

    def write(self, e, data):
        d = self.data.setdefault(e, {})
        for k, v in data.items():
            if k in d:
                self.overwrite = True
            d[k] = v
            self.order.append((e, k, v))

    def expected_reads(self, e, twin):
        """Admissible get_data results for e (twin = entity differing only by the extension, or None)."""
        if not self.has_path(e):
            return [{}, {"sid": e}]
        own = dict(self.data.get(e, {}))
        outs = [dict(own, sid=e)]
        if twin is not None and (self.data.get(twin) or self.data.get(e)):
            merged = {}
            for (ee, k, v) in self.order:
                if ee in (e, twin):
                    merged[k] = v
            outs.append(dict(merged, sid=e))
        return outs


def run_sequence(rec, lab, al, ops, hid, fresh=False, config=None):
    """Executes ops on the real code and compares with the model after each step. Returns False on violation."""
    from spil import Sid, WriteToPaths, GetFromPaths, FindInPaths, SpilException
    config = config or lab.default_config
    lab.trees.reset()
    m = SeqModel(lab, al, config)
    m.overwrite = False
    writer = WriteToPaths(config)
    writer2 = WriteToPaths(config)
    getter = GetFromPaths(config)
    finder = FindInPaths(config)
    case = {"ops": [list(o) for o in ops], "config": config, "which": lab.alphabet_which}
    wrote = False
    shared, shared_shadow = {}, {}       # the client's dict object, and what the client believes it holds
    for step, (op, role, key) in enumerate(ops):
        e = al[role]
        val = "%s.%d" % (hid, step)
        if step % 4 == 2:
            val = "r\u00e9sum\u00e9 \u65e5\u672c " + val            # text is not ASCII
            rec.count("non_ascii_values")
        elif step % 7 == 5:
            val = "scan_\udce9_" + val                              # what os.fsdecode gives for a badly encoded file name (lone surrogate)
            rec.count("lone_surrogate_values")
        if op == "setpos":
            val = FALSY[step % len(FALSY)]
        data = {key: val} if key else None
        if op == "update_empty":
            data = {}
        if op.endswith("_shared"):
            shared[key] = val
            shared_shadow[key] = val
            data = dict(shared_shadow)
            rec.count("shared_dict_calls")
        c = dict(case, step=step)
        if op in ("create", "create_shared"):
            exp = m.do_create(e, data)
        else:
            exp = m.do_write(e, data)
        try:
            if op == "create":
                got = writer.create(e, data) if data else writer.create(e)
            elif op == "create_shared":
                got = writer.create(e, shared)
            elif op == "update_shared":
                got = writer.update(e, shared)
            elif op == "set_w2":
                got = writer2.set(e, **data)
                rec.count("second_writer_calls")
            elif op == "update_proxy":
                import types as _types
                got = writer.update(e, _types.MappingProxyType(dict(data)))
                rec.count("mapping_proxy_writes")
            elif op == "update_empty":
                got = writer.update(e, {}) if step % 2 else writer.set(e)
                rec.count("empty_updates")
            elif op == "setpos":
                got = writer.set(e, key, val)
            elif op == "set" and key == "sid":
                got = writer.set(e, key, val)       # ('sid' is also the name of set()'s first parameter)
            elif op == "set":
                got = writer.set(e, **data)
            else:
                got = writer.update(e, data)
        except SpilException:
            got = "SpilException"
        except Exception as ex:
            rec.violation("write_raised", c, "%s(%s) -> %r" % (op, e, ex))
            return False
        if got != exp and not (got is True and exp is True):
            rec.violation("write_outcome_differs", c, "%s(%s,%r) -> %r, model says %r" % (op, e, data, got, exp))
            return False
        if got == "SpilException":
            rec.count("refused")
        else:
            rec.count("ok:" + op)
            wrote = True
            if op.endswith("_shared") and len(shared_shadow) > 0 and sum(1 for o in ops[:step] if o[0].endswith("_shared")):
                rec.count("shared_dict_reused")
        # observables of every Sid
        g2 = GetFromPaths(config)
        for role2, e2 in al.items():
            x = Sid(e2)
            twin = None
            if role2 == "F1" and "F2" in al:
                twin = al["F2"]
            elif role2 == "F2":
                twin = al["F1"]
            rec.count("reads")
            try:
                d1 = dict(getter.get_data(e2))
                d2 = dict(g2.get_data(x)) if x else d1
                fex = finder.exists(e2) if x else False
            except Exception as ex:
                rec.violation("read_raised", dict(c, sid=e2), repr(ex))
                return False
            exps = m.expected_reads(e2, twin)
            if d1 not in exps:
                rec.violation("data_differs", dict(c, sid=e2), "get_data=%r expected one of %r" % (d1, exps))
                return False
            if d2 != d1:
                rec.violation("new_getter_differs", dict(c, sid=e2), "%r vs %r" % (d2, d1))
                return False
            if bool(fex) != m.exists(e2):
                rec.violation("existence_differs", dict(c, sid=e2), "FindInPaths.exists=%r model=%r" % (fex, m.exists(e2)))
                return False
            if x and m.has_path(e2):
                # found by a matching search: parent/*  (and get_attr)
                par = "/".join(e2.split("/")[:-1])
                if par:
                    found = {str(r) for r in finder.find(par + "/*")}
                    if (e2 in found) != m.exists(e2):
                        if rec.violation("search_vs_existence", dict(c, sid=e2), "in find(%s/*): %r, model exists: %r" % (par, e2 in found, m.exists(e2))):
                            return False       # (a listed known finding does not end the sequence)
                    phantom = found - m.existing
                    if phantom:
                        # nothing exists that was not created (attribute writes create no entity)
                        rec.violation("found_but_never_created", dict(c, sid=e2), "find(%s/*) also returned %r" % (par, sorted(phantom)[:4]))
                        return False
                if config == lab.default_config and key and x and lab.conf.get_getter_for(x) is not None:
                    ga = x.get_attr(key)       # (types configured without a Getter answer None by configuration)
                    if ga != d1.get(key):
                        rec.violation("get_attr_differs", dict(c, sid=e2), "%r vs %r" % (ga, d1.get(key)))
                        return False
        if fresh and step == len(ops) - 1:
            rec.count("fresh_process_reads")
            code = ("import json,sys\nimport spil\nfrom spil import GetFromPaths\n"
                    "print('RESULT'+json.dumps({e: dict(GetFromPaths(%r).get_data(e)) for e in %r}))" % (config, sorted(al.values())))
            fenv = dict(os.environ)
            if len(ops) % 2:
                # the new process runs on a workstation whose locale is not UTF-8 (C locale, UTF-8 mode off)
                fenv.update({"LC_ALL": "C", "LANG": "C", "PYTHONUTF8": "0", "PYTHONCOERCECLOCALE": "0"})
                rec.count("fresh_process_reads_in_C_locale")
            p = subprocess.run([sys.executable, "-c", code], stdout=subprocess.PIPE, stderr=subprocess.PIPE, timeout=120,
                               env=fenv)
            line = [l for l in p.stdout.decode().splitlines() if l.startswith("RESULT")]
            if not line:
                rec.inconclusive.append("fresh process read failed: " + p.stderr.decode()[-300:])
            else:
                res = json.loads(line[0][6:])
                for role2, e2 in al.items():
                    twin = al.get("F2") if role2 == "F1" else (al.get("F1") if role2 == "F2" else None)
                    if res[e2] not in m.expected_reads(e2, twin):
                        rec.violation("fresh_process_data_differs", dict(c, sid=e2), "%r expected one of %r" % (res[e2], m.expected_reads(e2, twin)))
                        return False
    if m.overwrite:
        rec.count("overwrite")
    return wrote


def worker(args):
    from lib.findlab import Lab
    rec = Rec("C15")
    lab = Lab(args.get("seed", 0))
    al = build_alphabet(lab, which=args.get("shard", 0) % 2 if "replay" not in args else args["replay"].get("which", 0))
    for r in [r for r in al if r.startswith("C")]:
        parts = al[r].split("/")
        for i in range(len(parts) - 1, 2, -1):
            a = "/".join(parts[:i])
            ta = lab.model.natural(a)
            if ta is not None and lab.trees.path_of(lab.default_config, a)[0] is not None and a not in al.values():
                al["anc:%s:%d" % (r, i)] = a
    ops = ops_alphabet(al)
    rng = lab.rng
    lab.alphabet_which = args.get("shard", 0) % 2 if "replay" not in args else args["replay"].get("which", 0)
    rec.count("alphabet:" + lab.model.basetype(lab.model.natural(al["F1"]).name))
    if "replay" in args:
        c = args["replay"]
        rec.ev()
        run_sequence(rec, lab, al, [tuple(o) for o in c["ops"]], "R", config=c.get("config"))
        lab.trees.reset()
        return rec.result()
    rec.sample({"alphabet": al, "operations": len(ops)})
    n = 0
    stride = max(1, args["nshards"] // 2)      # two alphabets: each is enumerated by half of the shards
    for L in range(1, args["L"] + 1):
        for seq in itertools.product(range(len(ops)), repeat=L):
            n += 1
            if n % stride != args["shard"] // 2:
                continue
            rec.ev()
            rec.count("sequences")
            rec.count("exhaustive_sequences")
            sq = [ops[i] for i in seq]
            if run_sequence(rec, lab, al, sq, "h%d" % n):
                rec.nt(repr(seq))
    # one level deeper, sampled
    n = 0
    rs = random.Random(args.get("seed", 0))
    for seq in itertools.product(range(len(ops)), repeat=args.get("Ls", 3)):
        n += 1
        if n % stride != args["shard"] // 2 or rs.randrange(args.get("sample_k", 7)):
            continue
        rec.ev()
        rec.count("sequences")
        rec.count("sampled_longer_sequences")
        if run_sequence(rec, lab, al, [ops[i] for i in seq], "s%d" % n):
            rec.nt(repr(seq))
    for r in range(args["nrand"]):
        L = rng.randint(4, 40)
        sq = [rng.choice(ops) for _ in range(L)]
        # bias: start by creating something
        sq[0] = ("create", rng.choice(["F1", "V", "T", "G"]), None)
        rec.ev()
        rec.count("sequences")
        rec.count("random_sequences")
        cfg = lab.default_config if rng.random() < 0.7 else rng.choice(lab.configs)
        if run_sequence(rec, lab, al, sq, "r%d" % r, fresh=(r < args["nfresh"]), config=cfg):
            rec.nt(repr(sq))
        if r == 0:
            rec.sample({"sequence": [list(o) for o in sq[:8]]})
    lab.trees.reset()
    return rec.result()
