"""C05 — Sid -> path -> Sid is the identity in every path configuration."""
import random

from lib import driver, harness
from lib.rec import Rec
from lib.workers import run_shards

LEVEL = "exploration"
RULE = ('G2 concrete Sids of every type that has a path template, values incl. mapped ones (project/type/state), names containing the file-name '
        "separator '_' and names that look like other fields (x_rig_WORK, v001, char_x), node / no-node cache files; for each configured path "
        'configuration: Sid(path=sid.path(c), config=c) == sid, repeated / keyword / positional calls agree, paths are injective over the whole '
        'generated set, relative paths agree between configurations, pathless types and untyped Sids give None. Shards run in pairs with the '
        "same seed, one touching 'local' first and one 'server' first (separate processes); the parent compares their path maps. path() without "
        "argument must be path(<default configuration>), also for a Sid read from another configuration's path and for an equal Sid built "
        'afterwards; the last pair of shards reaches its configuration folder through a symbolic link; names include OS-reserved words, '
        'service-entry names and a lone surrogate. An independent renderer (R8) cross-checks the rendered path. Non-trivial = distinct (uri, '
        'config) of a concrete Sid that has a path.')
ASSUME = ["roots are the longest common literal prefix of a configuration's templates",
          "R8 renderer applies the configured one-to-one value mappings and defaults"]
BUDGET = {"quick": 16000, "thorough": 1200000}
NSHARDS = 16
NAMES = ["ophelia", "d'agger", "back\\slash", "x_rig", "x_rig_WORK", "a_b", "model", "char_x", "v001", "WORK", "b", "a-b", "a.b", "sq010_sh0010", "w", "p_v001", "x_", "yorick ", " lead", "two words", ".", "", "..", "cafe\u0301", "\u212b", "\U00020bb7\u91ce", "Ophelia", "caf\udce9",
         "constable", "console_table", "null_locator", "auxiliary", "com1c_mask", "nul", "CON", "aux.v2", "lpt1", "Thumbs.db", "lost+found", "@eaDir"]   # (names an operating system or a file server gives a meaning to are still names)


def shard_args(tier, seed):
    n = BUDGET[tier] // NSHARDS
    out = []
    for i in range(NSHARDS):
        out.append({"n": n, "seed": seed * 1000 + i // 2, "order": "local_first" if i % 2 == 0 else "server_first", "pair": i // 2,
                    "pathmap_cap": 1200 if tier == "quick" else 12000, "small_cache": 40 if (i // 2) % 2 else 0,
                    "conf_through_link": i // 2 == NSHARDS // 2 - 1})
    return out


def envs(snap, shard_args_list):
    """The last pair of shards reaches its configuration folder (and so the configured roots) through a symbolic link:
    path(c) is text computed from the configuration, whatever the file system makes of that text."""
    import os
    out = []
    for a in shard_args_list:
        if a.get("conf_through_link") or (a.get("replay") or {}).get("conf_through_link"):
            real = os.path.dirname(snap.conf_copy("c05real"))
            link = os.path.join(snap.root, "conf_c05_link")
            if not os.path.islink(link):
                os.symlink(real, link)
            out.append(snap.env(conf_dir=os.path.join(link, "spil_hamlet_conf")))
        else:
            out.append(snap.env())
    return out


def run(snap, tier, seed, t0, replay):
    if replay is not None:
        return driver.simple_run("C05", snap, tier, seed, t0, replay, LEVEL, RULE, ASSUME, shard_args, envs_fn=envs)
    args = shard_args(tier, seed)
    results = run_shards(snap, "c05", args, envs=envs(snap, args))
    m = harness.merge(results)
    # cross-process purity: same seed, different configuration order
    pairs = {}
    for a, r in zip(args, results):
        if "_failed" in r:
            continue
        pairs.setdefault(a["pair"], []).append((a["order"], r.get("pathmap", {})))
    cross = 0
    for pid, lst in pairs.items():
        if len(lst) != 2:
            continue
        (o1, m1), (o2, m2) = lst
        for k in set(m1) & set(m2):
            cross += 1
            if m1[k] != m2[k]:
                v = {"property": "C05", "kind": "path_depends_on_configuration_order", "case": {"key": k, o1: m1[k], o2: m2[k]},
                     "detail": "%s: %r vs %s: %r" % (o1, m1[k], o2, m2[k])}
                m.unlisted.append(v)
                m.unlisted_n += 1
    m.counters["cross_process_comparisons"] = cross
    c = m.counters
    floors = {"round trips": (c.get("roundtrip", 0), BUDGET[tier]),
              "cross-process comparisons": (cross, 4000 if tier == "quick" else 40000),
              "names containing separator": (c.get("sep_in_name", 0), BUDGET[tier] // 20),
              "pathless / untyped": (c.get("none_expected", 0), BUDGET[tier] // 50),
              "configs": (len([k for k in c if k.startswith("config:")]), 2),
              "same-string other-type Sids": (c.get("same_string_other_type", 0), 50),
              "transient faults injected": (c.get("transient_faults_injected", 0), 50)}
    return harness.finish("C05", tier, seed, LEVEL, m, RULE, t0, ASSUME, floors=floors)


def transient_fault(rec, Sid, s, configs, pms):
    """Injected fault: the FIRST path computation of a fresh Sid fails with a non-spil error; once the fault is gone the
    path must be the normal one (path(c) is a pure function of (type, fields, c) - a failure must not be remembered)."""
    from spil.sid.pathops import fs_resolver
    segs = s.split("/")
    x = Sid(s)
    if not x or x.is_search():
        return
    real = fs_resolver.dict_to_path
    c = configs[len(s) % len(configs)]
    state = {"n": 0}

    def failing(*a, **kw):
        state["n"] += 1
        raise OSError(5, "injected I/O error while resolving the path")
    # use a Sid object whose path was never computed: same fields through another spelling (uri)
    y = Sid(x.uri + "?" + "&".join("%s=%s" % kv for kv in list(x.fields.items())[-1:]))
    if not y or y != x:
        return
    fs_resolver.dict_to_path = failing
    try:
        try:
            y.path("%s" % c)
        except Exception:
            pass
    finally:
        fs_resolver.dict_to_path = real
    if not state["n"]:
        return          # the path was already cached: the fault was not reached
    rec.count("transient_faults_injected")
    exp = pms[c].render(x.type, x.fields)
    try:
        got = y.path("%s" % c)
    except Exception as e:
        rec.violation("path_raised_after_fault_cleared", {"s": s, "config": c, "fault": "OSError in dict_to_path on first call"}, repr(e))
        return
    if (got.as_posix() if got is not None else None) != exp and x.type in pms[c].templates:
        rec.violation("failure_remembered_after_transient_fault", {"s": s, "config": c, "fault": "OSError in dict_to_path on first call"},
                      "path after the fault cleared: %r expected %r" % (got, exp))


def worker(args):
    from spil import conf, Sid
    from lib.refmodel import SidModel
    from lib.pathmodel import PathModel
    from lib import gen
    rec = Rec("C05")
    if args.get("small_cache"):
        # harness-side assignment, read by the caches at call time: forces evictions within a short workload
        from spil.util import caching
        caching._max_size = int(args["small_cache"])
        rec.count("small_cache_shards")
    model = SidModel(conf)
    vocab = gen.Vocab(model)
    rng = random.Random(args.get("seed", 0))
    configs = list(conf.path_configs)
    default_config = conf.default_path_config
    if args.get("order") == "server_first":
        configs = list(reversed(configs))
    # touch the configurations in the requested order (with any valid Sid of the shortest type)
    shortest = min((t for t in model.templates if vocab.usable(t)), key=lambda t: t.nseg)
    touch = vocab.valid_string(shortest, random.Random(1))
    for c in configs:
        Sid(touch).path(c)
    pms = {c: PathModel(c) for c in configs}
    pathmap = {}
    seen_paths = {c: {} for c in configs}
    signature = {c: repr((sorted((n, t.tpl[len(pm.root):]) for n, t in pm.templates.items()), sorted(pm.mapping.items(), key=repr), sorted(pm.defaults.items())))
                 for c, pm in pms.items()}

    link = bool(args.get("conf_through_link") or (args.get("replay") or {}).get("conf_through_link"))
    if link:
        rec.count("shards_with_configuration_through_a_link")

    def one(s, force_none=False):
        case = {"s": s, "conf_through_link": True} if link else {"s": s}
        x = Sid(s)
        rels = {}
        for c in configs:
            pm = pms[c]
            cc = dict(case, config=c)
            has_tpl = bool(x) and x.type in pm.templates
            try:
                p = x.path(c)
                p2 = x.path(c)
            except Exception as e:
                rec.violation("path_raised", cc, repr(e))
                continue
            try:
                p3 = x.path(config=c)
                if p3 != p:
                    rec.violation("path_keyword_differs", cc, "%r vs %r" % (p, p3))
            except TypeError as e:
                rec.violation("path_keyword_raised", cc, repr(e))
            if not has_tpl or x.is_search():
                if not has_tpl:
                    rec.count("none_expected")
                    if p is not None:
                        rec.violation("path_for_pathless", cc, repr(p))
                continue
            rec.count("config:" + c)
            if pm.render(x.type, x.fields) is None:
                # a value outside this configuration's vocabulary: no path here (None, not a bogus path)
                rec.count("value_outside_config_vocabulary")
                if p is not None:
                    rec.violation("path_for_values_outside_config_vocabulary", cc, repr(p))
                continue
            if p is None:
                rec.violation("no_path_for_type_with_template", cc, "")
                continue
            ps = p.as_posix()
            if p2 != p:
                rec.violation("path_not_pure", cc, "%r vs %r" % (p, p2))
            exp = pm.render(x.type, x.fields)
            if exp is not None and exp != ps:
                rec.violation("path_differs_from_reference_rendering", cc, "%r vs %r" % (ps, exp))
            rec.count("roundtrip")
            rec.nt(x.uri + "|" + c)
            try:
                back = Sid(path=ps, config=c)
            except Exception as e:
                rec.violation("roundtrip_raised", cc, repr(e))
                back = None
            if back is not None and not (back == x and back.type == x.type and back.fields == x.fields):
                rec.violation("roundtrip_differs", cc, "path=%r back=%r" % (ps, back.uri if back else back))
            if back is not None and back == x:
                # path() without argument is path(<default configuration>) - for the Sid that came back from ANY configuration's path,
                # and (afterwards) for an equal Sid built from the string
                try:
                    rec.count("path_without_argument")
                    dflt = x.path(default_config)
                    for who, y in (("Sid read from a path of %s" % c, back), ("equal Sid built from the string afterwards", Sid(s))):
                        got0 = y.path()
                        if got0 != dflt:
                            rec.violation("path_without_argument_is_not_the_default_configuration", dict(cc, who=who), "%r vs %r" % (got0, dflt))
                            break
                except Exception as e:
                    rec.violation("path_without_argument_raised", cc, repr(e))
            try:
                back2 = Sid(path=p, config=c)     # Path object
                if back2 != back:
                    rec.violation("roundtrip_Path_vs_str", cc, "%r vs %r" % (back2, back))
            except Exception as e:
                rec.violation("roundtrip_raised", cc, repr(e))
            prev = seen_paths[c].get(ps)
            if prev is not None and prev != x.uri:
                rec.violation("two_sids_one_path", dict(cc, other=prev), ps)
            seen_paths[c][ps] = x.uri
            rel = pm.rel(ps)
            if rel is None:
                rec.violation("path_outside_root", cc, ps)
            rels[c] = rel
            if len(pathmap) < args.get("pathmap_cap", 1200):
                pathmap[x.uri + "|" + c] = ps        # (the WHOLE path: both processes of a pair read the same configuration files)
        # (only configurations that share templates and vocabulary are expected to differ by the root alone)
        for sig in set(signature.values()):
            grp = {c: r for c, r in rels.items() if signature[c] == sig}
            if len(grp) >= 2 and len(set(grp.values())) != 1:
                rec.violation("relative_paths_differ_between_configs", case, repr(grp))
        return x

    if "replay" in args:
        c = args["replay"]
        rec.ev()
        if c.get("fault"):
            transient_fault(rec, Sid, c["s"], configs, pms)
        elif "s" in c:
            one(c["s"])
            if c.get("other"):
                one(c["other"])
        return rec.result()
    with_path = [t for t in model.templates if vocab.usable(t) and any(t.name in pm.templates for pm in pms.values())]
    without = [t for t in model.templates if vocab.usable(t) and t not in with_path]
    asked = []
    for it in range(args["n"]):
        r = rng.random()
        rec.ev()
        if r < 0.9:
            t = with_path[it % len(with_path)]
            segs = vocab.valid_segments(t, rng, pool=NAMES)
            s = "/".join(segs)
            if model.is_search_string(s):
                continue
            if any("_" in v for v, info in zip(segs, vocab.info[t.name]) if info["open"]):
                rec.count("sep_in_name")
            x = one(s)
            if it % 9 == 0:
                # Sids that SHARE this string but have another (forced) type: each has its own path (or None)
                others = [t2 for t2 in model.all_types(s) if t2.name != (x.type if x else None)]
                if others:
                    rec.count("same_string_other_type")
                    order = [t2.name + ":" + s for t2 in others]
                    if rng.random() < 0.5:
                        for u in order:
                            one(u)
                        one(s)
                    else:
                        one(s)
                        for u in order:
                            one(u)
            if it % 11 == 0 and x:
                transient_fault(rec, Sid, s, configs, pms)
        elif r < 0.95 and without:
            t = rng.choice(without)
            s = vocab.valid_string(t, rng, pool=NAMES)
            x = one(s)
        else:
            s = rng.choice(["", "bla", "bla/bla", "hamlet/x", "hamlet/a/zz", "*"])
            x = one(s)
        if it % 7 == 0 and it > 50:
            # ask an earlier Sid again (its cache entries may have been evicted / overwritten meanwhile)
            rec.count("re_asked")
            one(asked[rng.randrange(len(asked))])
        if r < 0.9:
            asked.append(s)
        if it % 1999 == 0 and x is not None:
            try:
                rec.sample({"sid": s, "paths": {c: (pms[c].rel(x.path(c)) if x.path(c) else None) for c in configs}})
            except Exception:
                pass        # (a sample is documentation; a raising path() is judged above)
    res = rec.result()
    res["pathmap"] = pathmap
    return res
