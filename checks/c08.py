"""C08 — searching a list returns exactly the entries that glob-match the search."""
import random

from lib import driver
from lib.rec import Rec

LEVEL = "exploration"
RULE = ("G5 universes (few values per level, names sharing prefixes and containing - . + _) materialised as lists (complete hierarchy, "
        "leaf-only, with near-miss and untyped entries, with duplicate entries) x G4 searches without '>' built from entities of the "
        "universe (so that results collide) and from foreign strings. Every exhausted FindInList.find in the process (M-find generator "
        "wrapper on Finder.find) is compared with {e in L : exists u in U(s): R5 gmatch(str(u), e)}, U(s) being the OBSERVED result of "
        "the real unfold_search(s); R5 is an own split-and-scan matcher (no re). Sid.match is compared with the same oracle on [str(x)]. "
        "Non-trivial = distinct (list variant, search) with a non-empty expected result that is a strict subset of the list.")
ASSUME = ["U(s) is taken from the real unfold_search (C07 judges it separately); searches for which it raises are counted, not judged",
          "names containing '[' or ']' are a separate input class (thorough tier)"]
BUDGET = {"quick": (480, 60), "thorough": (8000, 80)}    # (universes, searches per list variant)
NSHARDS = 16


def shard_args(tier, seed):
    u, k = BUDGET[tier]
    shards = [{"universes": u // NSHARDS, "searches": k, "seed": seed * 1000 + i, "brackets": tier == "thorough"} for i in range(NSHARDS)]
    if tier == "thorough":
        shards.append({"universes": 0, "searches": 0, "seed": seed, "suite": True})   # the repository's own tests under the M-find monitor
    return shards


def floors(m, tier):
    u, k = BUDGET[tier]
    c = m.counters
    return {"M-find evaluations (FindInList)": (m.monitor.get("M-find:FindInList", 0), u * k),
            "non-empty strict-subset results": (c.get("expected_strict_subset", 0), u * k // 8),
            "match() evaluations": (c.get("match_calls", 0), u * 5),
            "match() True": (c.get("match_true", 0), u),
            "match() on forced-type Sids": (c.get("match_forced_type", 0), 20),
            "match() against '>' searches": (c.get("match_with_last_symbol", 0), u),
            "match() True against '>' searches": (c.get("match_true_with_last_symbol", 0), 10),
            "do_strip finders": (c.get("do_strip_finders", 0), u // 2),
            "pre-sorted finders": (c.get("pre_sorted_finders", 0), u // 2),
            "do_strip non-empty results judged": (c.get("do_strip_nonempty", 0), u),
            "match() where the search's query overwrites its own symbol": (c.get("match_query_overwrites_symbol", 0), u),
            "typed non-search lookups": (c.get("typed_nonsearch", 0), u),
            "alias in last segment of a typed non-search Sid": (c.get("typed_nonsearch_alias", 0), 5)}


def run(snap, tier, seed, t0, replay):
    return driver.simple_run("C08", snap, tier, seed, t0, replay, LEVEL, RULE, ASSUME, shard_args, floors_fn=floors)


def expected_in_list(L, forms):
    from lib.refmodel import gmatch
    out = []
    seen = set()
    for e in L:
        if e in seen:
            continue
        if any(gmatch(f, e) for f in forms):
            seen.add(e)
            out.append(e)
    return seen


def install(rec, model, state):
    """M-find on Finder.find (FindInList instances only)."""
    from spil.sid.read.finder import Finder
    from spil import FindInList, SpilException
    from spil.sid.read import tools
    from lib import monitors

    def on_done(self, args, kwargs, items, exc, exhausted):
        if type(self) is not FindInList:
            return
        search = args[0] if args else kwargs.get("search_sid")
        L = state.get("finder_lists", {}).get(id(self))
        if L is None:
            # a finder the harness did not build (e.g. the one Sid.match builds): judged against the list it holds
            L = self.searchlist
            if not isinstance(L, list):
                rec.count("finder_holds_no_list")
                return
        if state.get("expect_list") is not None and self is state.get("extrap_finder"):
            L = state["expect_list"]       # the entries an extrapolated leaf list stands for: the leaves and their ancestors
        if ">" in str(search):
            return                       # "last" searches: C09 (match() against them is judged by check_match)
        rec.mon("M-find:FindInList")
        case = {"search": str(search), "list": list(L) if len(L) <= 400 else None, "variant": state.get("variant")}
        if exc is not None:
            if isinstance(exc, SpilException):
                rec.count("find_raised_SpilException")
                return
            rec.violation("find_raised", case, repr(exc))
            return
        if not exhausted:
            return
        sstr = str(search)
        if "?" in sstr and any(ch in sstr.split("?", 1)[1] for ch in "%+;#~ "):
            rec.unspec("url_metachar_in_filter")
            return
        try:
            forms = [str(u) for u in tools.unfold_search(str(search)) if u and "?" not in str(u)]   # (unfolded forms are typed, query-free searches)
        except SpilException:
            rec.count("unfold_raised")
            return
        except Exception:
            return
        got = [str(i) for i in items]
        if len(set(got)) != len(got):
            rec.violation("duplicates_yielded", case, repr(got[:20]))
        exp = expected_in_list(L, forms)
        if id(self) in state.get("strip_finders", ()):
            # do_strip: the documented effect is on the returned items; whether a line is matched before or after stripping is
            # not stated - judged only where both readings agree
            exp_raw = {e.strip() for e in exp}
            exp_stripped = expected_in_list([e.strip() for e in L], forms)
            if exp_raw != exp_stripped:
                rec.unspec("do_strip_match_before_or_after_strip")
                return
            exp = exp_raw
            if exp:
                rec.count("do_strip_nonempty")
        if exp and len(exp) < len(set(L)):
            rec.count("expected_strict_subset")
            rec.nt("%s|%s|%s" % (state.get("variant"), state.get("uid"), search))
        if set(got) != exp:
            rec.violation("find_set_differs", case, "missing=%r extra=%r forms=%r" % (
                sorted(exp - set(got))[:6], sorted(set(got) - exp)[:6], forms[:6]))

    monitors.wrap_generator_method(Finder, "find", on_done)


def check_match(rec, model, Sid, x_str, s, forced_type=None):
    from spil.sid.read import tools
    from spil import SpilException
    from lib.refmodel import gmatch
    x = Sid((forced_type + ":" + x_str) if forced_type else x_str)
    if not x:
        return
    case = {"sid": x_str, "search": s, "mode": "match", "forced_type": forced_type}
    if "?" in s and any(ch in s.split("?", 1)[1] for ch in "%+;#~ "):
        rec.unspec("url_metachar_in_filter")
        return
    try:
        forms = [str(u) for u in tools.unfold_search(s) if u and "?" not in str(u)]
    except Exception:
        forms = None
    last = False
    if forms and any(">" in f for f in forms):
        # in a list containing only itself a matching Sid is the last of its group: '>' reads as '*'
        if len({f.split("/").index(">") if ">" in f.split("/") else -1 for f in forms}) != 1:
            rec.unspec("last_symbol_at_several_positions")       # outside C09's premise
            return
        forms = [f.replace(">", "*") for f in forms]
        last = True
    if forced_type:
        rec.count("match_forced_type")
    rec.count("match_calls")
    try:
        got = x.match(s)
    except SpilException:
        return
    except Exception as e:
        rec.violation("match_raised", case, repr(e))
        return
    if forms is None:
        return
    if last:
        rec.count("match_with_last_symbol")
    exp = any(gmatch(f, str(x)) for f in forms)
    if exp:
        rec.count("match_true")
        if last:
            rec.count("match_true_with_last_symbol")
    if bool(got) != exp:
        rec.violation("match_differs", case, "match=%r expected=%r forms=%r" % (got, exp, forms[:6]))


def worker(args):
    from spil import conf, Sid, FindInList
    from lib.refmodel import SidModel
    from lib import gen, searchgen, universe
    rec = Rec("C08")
    model = SidModel(conf)
    state = {}
    install(rec, model, state)
    vocab = gen.Vocab(model)
    rng = random.Random(args.get("seed", 0))
    if "replay" in args:
        c = args["replay"]
        rec.ev()
        try:
            if c.get("mode") == "match":
                check_match(rec, model, Sid, c["sid"], c["search"], c.get("forced_type"))
            elif str(c.get("variant", "")).startswith("complete_pre_sorted"):
                fd = FindInList(list(c["list"]), do_pre_sort=True)
                state["finder_lists"] = {id(fd): list(c["list"])}
                list(fd.find(c["search"], as_sid=False))
            elif str(c.get("variant", "")).startswith("raw_lines_do_strip"):
                fd = FindInList(list(c["list"]), do_strip=True)
                state["finder_lists"] = {id(fd): list(c["list"])}
                state["strip_finders"] = {id(fd)}
                list(fd.find(c["search"], as_sid=False))
                list(fd.find(c["search"], as_sid=False))      # (a Finder answers more than once)
            else:
                list(FindInList(c["list"]).find(c["search"], as_sid=False))
        except Exception:
            pass
        return rec.result()
    aliases = list(model.alias)
    if args.get("suite"):
        from lib import suite_shard
        state["variant"], state["uid"] = "repo_tests", "suite"
        suite_shard.run_repo_tests(rec)
        return rec.result()
    for u in range(args["universes"]):
        names = None
        if args.get("brackets") and rng.random() < 0.15:
            names = ["a", "a[b]", "[ab]", "b", "ab"]
            rec.count("bracket_universes")
        if names is None and rng.random() < 0.3 and model.alias:
            # entities NAMED like alias members / aliases at open levels ('ma', 'mb'): a concrete Sid ending in the alias still expands
            a = rng.choice(sorted(model.alias))
            names = sorted(set(model.alias[a][:2]) | {"b", "ab"})
            rec.count("alias_member_name_universes")
        ents = universe.gen_universe(rng, model, vocab, n_leaves=rng.choice([12, 30, 60]), names=names)
        full = universe.with_ancestors(ents)
        state["uid"] = "%s-%d" % (args.get("seed"), u)
        variants = universe.list_variants(rng, model, ents)
        variants.append(("leaf_only_extrapolated", list(ents)))
        # raw lines of a text file, read with do_strip=True: the entries are the stripped lines
        variants.append(("raw_lines_do_strip", [rng.choice(["", " ", "  "]) + e + rng.choice(["\n", " \n", "\r\n", "", "\t"]) for e in full]))
        variants.append(("complete_pre_sorted", list(full)))
        for vname, L in variants:
            state["variant"] = vname
            state["finder_lists"] = {}
            state["strip_finders"] = set()
            if vname == "leaf_only_extrapolated":
                # FindInList builds the hierarchy itself: same answers as the complete list
                finder = FindInList(list(L), do_extrapolate=True)
                state["expect_list"] = list(full)
                state["extrap_finder"] = finder
            elif vname == "complete_pre_sorted":
                state.pop("expect_list", None)
                state.pop("extrap_finder", None)
                finder = FindInList(list(L), do_pre_sort=True)       # (sorts and de-duplicates its list: same answers)
                state["finder_lists"][id(finder)] = list(L)
                state["keep"] = finder
                rec.count("pre_sorted_finders")
            elif vname == "raw_lines_do_strip":
                state.pop("expect_list", None)
                state.pop("extrap_finder", None)
                finder = FindInList(list(L), do_strip=True)
                state["finder_lists"][id(finder)] = list(L)
                state.setdefault("strip_finders", set()).add(id(finder))
                state["keep"] = finder
                rec.count("do_strip_finders")
            else:
                state.pop("expect_list", None)
                state.pop("extrap_finder", None)
                finder = FindInList(L)
                state["finder_lists"][id(finder)] = list(L)
                state["keep"] = finder
            for k in range(args["searches"] // 4 + 1):
                r = rng.random()
                if r < 0.72:
                    base = rng.choice(full)
                    t = model.natural(base)
                    s, info = searchgen.make_search(rng, model, vocab, t, allow_last=False, base_segs=base.split("/"),
                                                    pool=names or universe.UNI_NAMES, small=True, p_star=rng.choice([0.15, 0.3, 0.6]))
                elif r < 0.88:
                    # a typed, non-search Sid: existing or not; sometimes with an alias as last segment
                    base = rng.choice(full) if rng.random() < 0.6 else vocab.valid_string(rng.choice([t for t in model.templates if vocab.usable(t)]), rng, pool=names or universe.UNI_NAMES, small=True)
                    segs = base.split("/")
                    if aliases and rng.random() < 0.5:
                        if ents and rng.random() < 0.8:
                            segs = rng.choice(ents).split("/")      # an existing leaf: the alias in its place denotes it and its siblings
                        segs[-1] = rng.choice(aliases)
                    s = "/".join(segs)
                    x = Sid(s)
                    if x and not x.is_search():
                        rec.count("typed_nonsearch")
                        if segs[-1] in model.alias:
                            rec.count("typed_nonsearch_alias")
                    info = {"ops": ["concrete"]}
                else:
                    t = rng.choice([t for t in model.templates if vocab.usable(t)])
                    s, info = searchgen.make_search(rng, model, vocab, t, allow_last=False, pool=names or universe.UNI_NAMES, small=True)
                if ">" in s or "<" in s:
                    continue
                if k % 6 == 0:
                    # match() against a "last" search built from the same search
                    sg = s.split("?", 1)[0].split("/")
                    cand_i = [i for i, v in enumerate(sg) if v == "*"]
                    if cand_i:
                        i = rng.choice(cand_i)
                        s_last = "/".join(sg[:i] + [">"] + sg[i + 1:]) + ("?" + s.split("?", 1)[1] if "?" in s else "")
                        check_match(rec, model, Sid, rng.choice(full), s_last)
                        base_m = rng.choice(full).split("/")
                        if len(base_m) > 1:
                            j = rng.randrange(1, len(base_m))
                            check_match(rec, model, Sid, "/".join(base_m), "/".join(base_m[:j] + [">"] + base_m[j + 1:]))
                if k % 17 == 0 and full:
                    # junk-pair case: two untypable alternatives in one segment, and list entries carrying exactly those junk values
                    base = rng.choice(full).split("/")
                    i = rng.randrange(len(base))
                    jz, jy = base[:], base[:]
                    jz[i], jy[i] = "zz", "yy"
                    s_j = "/".join(base[:i] + [base[i] + ",zz,yy"] + base[i + 1:])
                    rec.ev()
                    rec.count("junk_pair_cases")
                    state["variant"] = vname + "+junk_pair"
                    try:
                        list(FindInList(list(L) + ["/".join(jz), "/".join(jy)]).find(s_j, as_sid=False))
                    except Exception:
                        pass
                    state["variant"] = vname
                rec.ev()
                try:
                    if rng.random() < 0.3:
                        got = list(finder.find(s, as_sid=True))
                    else:
                        got = list(finder.find(s, as_sid=False))
                except Exception:
                    got = None
                if k % 2 == 0:
                    cand = [str(g) for g in got] if (got and rng.random() < 0.5) else full
                    xs = rng.choice(cand)
                    check_match(rec, model, Sid, xs, s)
                    ts = model.all_types(xs)
                    if len(ts) > 1:
                        # the same string as a Sid of another type that accepts it: found by s in [its string] all the same
                        check_match(rec, model, Sid, xs, s, forced_type=ts[-1].name)
                        check_match(rec, model, Sid, xs, xs, forced_type=ts[-1].name)
                if k % 5 == 0 and full:
                    # the search's own query overwrites its symbol with the value the Sid has there: Sid(search) == the Sid,
                    # yet match is still "found by this search in [its string]"
                    base = rng.choice(full)
                    bt = model.natural(base)
                    segs = base.split("/")
                    if bt is not None and len(segs) > 1:
                        i = rng.randrange(1, len(segs))
                        sym = rng.choice(["*", "**"]) if i == len(segs) - 1 else "*"
                        s_q = "/".join(segs[:i] + [sym] + segs[i + 1:] if sym == "*" else segs[:i] + ["**"]) + "?%s=%s" % (bt.keys[i], segs[i])
                        rec.count("match_query_overwrites_symbol")
                        check_match(rec, model, Sid, base, s_q)
                if u == 0 and k == 0:
                    rec.sample({"variant": vname, "list_size": len(L), "search": s, "found": [str(g) for g in (got or [])][:5]})
    return rec.result()
