"""C17 — an interrupted attribute write leaves the old or the new data, never a ruin.

Fault enumeration: the file-system effects of one set / update / create(data) are recorded (python-level interposer, cross-checked
by a kernel-level strace pass), the operation is re-executed dying before every effect and after every byte prefix of every write,
and (injector B) killed by the kernel on entry to every mutating syscall; after each crash a recovery oracle (forked from a pristine
worker, and for a sample a truly fresh interpreter) reads everything back with the real code.  Second clause: every corruption of a
sidecar (truncation at each byte, emptied, directory, unreadable) must only blank that one Sid's data.
"""
import json
import os
import random
import shutil
import subprocess
import sys

from lib import driver
from lib.rec import Rec

LEVEL = "fault_enumeration"
RULE = ('Scenarios: first write, overwrite, overwrite with larger / smaller payload, create(sid, data), folder entity, the .ma/.mb pair sharing '
        'a sidecar (payloads of 1..5 keys). For each: every effect boundary and byte prefix (quick: every 4th byte) of the python-visible effect '
        'list, plus (injector B) a SIGKILL on entry to every mutating syscall the kernel sees in the window. Recovery oracle: data of the '
        'written Sid is exactly the complete old or the complete new data (both taken from reference runs of the real code), all other Sids '
        'unchanged, searches over the folder do not raise and find the same entities, the next set succeeds and reads back. One scenario writes '
        'to an entity of a free-text folder level (a left-over file there would be an entity). Corruption family: truncation at every byte, '
        'emptied, replaced by a directory, unreadable (injected PermissionError / EIO). Non-trivial = distinct (scenario, cut point) that leaves '
        'the file system different from both the pre-state and the completed state, or any corruption case.')
ASSUME = ["a crash is modelled as process death (os._exit / SIGKILL): data handed to the kernel survives; power-loss reordering below the file "
          "system is not modelled", "sidecars that are valid JSON but not an object are outside 'not valid JSON' and not generated",
          "old / new reference states come from uncut runs of the real code in the same pre-state"]
BUDGET = {"quick": {"scenarios": 15, "byte_step": 2, "strace_scenarios": 8, "corrupt_step": 2},
          "thorough": {"scenarios": 96, "byte_step": 1, "strace_scenarios": 96, "corrupt_step": 1}}
NSHARDS = 8


def shard_args(tier, seed):
    b = BUDGET[tier]
    out = []
    for i in range(NSHARDS):
        out.append(dict(b, shard=i, nshards=NSHARDS, seed=seed * 1000 + i, tier=tier))
    return out


def envs(snap, shard_args_list):
    return [snap.env(conf_dir=snap.conf_copy("w%d" % i)) for i in range(len(shard_args_list))]


def floors(m, tier):
    c = m.counters
    q = tier == "quick"
    return {"python-level cut points": (c.get("cuts_A", 0), 300 if q else 1500),
            "byte-prefix cuts": (c.get("cuts_A_prefix", 0), 30 if q else 1000),
            "kernel-level kill points": (c.get("cuts_B", 0), 20 if q else 100),
            "strace attached": (c.get("strace_attached", 0), 3),
            "recoveries judged": (c.get("recoveries", 0), 80 if q else 1800),
            "fresh-interpreter recoveries": (c.get("fresh_recoveries", 0), 2),
            "corruption cases": (c.get("corruptions", 0), 20 if q else 100),
            "cases with two corrupt sidecars": (c.get("two_corrupt_sidecars", 0), 2),
            "scenarios": (c.get("scenarios", 0), 6)}


def run(snap, tier, seed, t0, replay):
    def extra(m, results):
        eff = []
        for r in results:
            eff.extend(r.get("effect_lists", []))
        return {"effect_sequences": eff[:12], "exhaustive": tier == "thorough",
                "explanation": "every effect boundary and (thorough: every) byte prefix of each scenario's write was cut"}
    return driver.simple_run("C17", snap, tier, seed, t0, replay, LEVEL, RULE, ASSUME, shard_args, floors_fn=floors, envs_fn=envs,
                             extra_cov_fn=extra, timeout=3400)


# ------------------------------------------------------------------------------------------- scenarios
def scenarios(al, n):
    long_ = "L" * 120
    base = [
        {"name": "first_write", "pre": [("create", "F1", None)], "op": ("set", "F1", {"k1": "NEW"})},
        {"name": "overwrite", "pre": [("create", "F1", {"k1": "OLD", "k2": "OLD2"})], "op": ("set", "F1", {"k1": "NEW"})},
        {"name": "overwrite_larger", "pre": [("create", "F1", {"k1": "x"})], "op": ("update", "F1", {"k1": long_, "k3": "three"})},
        {"name": "overwrite_smaller", "pre": [("create", "F1", {"k1": long_, "k2": long_})], "op": ("set", "F1", {"k1": "s"})},
        {"name": "create_with_data", "pre": [], "op": ("create", "F1", {"k1": "NEW"})},
        {"name": "folder_entity", "pre": [("create", "V", {"k1": "OLD"})], "op": ("set", "V", {"k1": "NEW", "k2": "N2"})},
        {"name": "pair_sibling", "pre": [("create", "F1", {"k1": "OLD"}), ("create", "F2", None)], "op": ("set", "F2", {"k2": "NEW"})},
        {"name": "set_attribute_and_kwargs", "pre": [("create", "F1", {"k1": "OLD", "k2": "OLD2"})], "op": ("setmixed", "F1", {"k1": "NEW", "k2": "N2"})},
        {"name": "task_folder", "pre": [("create", "T", {"a": 1, "b": [1, 2], "c": {"d": "e"}})], "op": ("update", "T", {"b": [3], "z": "new"})},
    ]
    if "A" in al:
        # an entity of a free-text folder level (its siblings are whatever the folder holds: a left-over file there would be an entity)
        base.insert(2, {"name": "open_level_folder", "pre": [("create", "A", {"k1": "OLD"})], "op": ("set", "A", {"k1": "NEW", "k4": "N4"})})
    out = list(base)
    i = 0
    while len(out) < n:
        b = base[i % len(base)]
        k = 1 + (i % 5)
        op = (b["op"][0], b["op"][1], {"key%d" % j: "value-%d-%d" % (i, j) * (1 + (i + j) % 4) for j in range(k)})
        out.append({"name": "%s_p%d" % (b["name"], i), "pre": b["pre"], "op": op})
        i += 1
    return out[:n]


OTHERS = [("T2", {"t2": "T2-OLD"}), ("G", {"g1": "G-OLD", "g2": 2})]


def apply_op(writer, al, op):
    kind, role, data = op
    e = al[role]
    if kind == "create":
        return writer.create(e, data) if data else writer.create(e)
    if kind == "setmixed":
        items = list(data.items())      # set(sid, attribute, value, **kwargs): ONE logical write
        return writer.set(e, items[0][0], items[0][1], **dict(items[1:]))
    if kind == "set":
        return writer.set(e, **data)
    return writer.update(e, data)


def observe(al, target_role, do_next):
    """Recovery oracle body (real code). Runs in a forked / fresh process."""
    from spil import GetFromPaths, FindInPaths, WriteToPaths, Sid
    out = {"reads": {}, "errors": [], "found": {}, "records": {}, "reads_noenc": {}}
    g = GetFromPaths()
    raw = {}
    for role, e in al.items():
        try:
            raw[role] = g.get_data(e)                  # (records are kept as returned until all reads are done)
            out["reads_noenc"][role] = dict(g.get_data(e, sid_encode=lambda x: None))
        except Exception as ex:
            out["errors"].append("get_data(%s): %r" % (role, ex))
    for role, r in raw.items():
        out["reads"][role] = dict(r)
    target = al[target_role]
    par = "/".join(target.split("/")[:-1])
    for s in (par + "/*", target, "/".join(target.split("/")[:4]) + "/**"):
        try:
            out["found"][s] = sorted(str(x) for x in FindInPaths().find(s))
            recs = list(GetFromPaths().get(s))
            out["records"][s] = sorted((dict(r) for r in recs), key=lambda d: str(d.get("sid")))
        except Exception as ex:
            out["errors"].append("search %s: %r" % (s, ex))
    if do_next:
        try:
            exists = FindInPaths().exists(target)
            w = WriteToPaths()
            if exists:
                out["next"] = bool(w.set(target, zz_next="n"))
            else:
                out["next"] = bool(w.create(target, {"zz_next": "n"}))
            out["next_read"] = dict(GetFromPaths().get_data(target))
        except Exception as ex:
            out["errors"].append("next write: %r" % (ex,))
    return out


def fresh_observe(al, target_role):
    code = ("import json,sys\nsys.path.insert(0, %r)\nimport spil\nfrom checks.c17 import observe\n"
            "print('RESULT'+json.dumps(observe(%r, %r, True), default=str))" % (
                os.path.dirname(os.path.dirname(os.path.abspath(__file__))), al, target_role))
    p = subprocess.run([sys.executable, "-c", code], stdout=subprocess.PIPE, stderr=subprocess.PIPE, timeout=120, env=dict(os.environ))
    for l in p.stdout.decode().splitlines():
        if l.startswith("RESULT"):
            return json.loads(l[6:])
    return {"reads": {}, "errors": ["fresh interpreter failed: " + p.stderr.decode()[-300:]], "found": {}}


class Arena:
    """Pre-state on disk + save / restore."""

    def __init__(self, lab):
        self.lab = lab
        self.root = lab.trees.pms[lab.default_config].root.rstrip("/")
        self.saved = self.root + "__pre"

    def build(self, al, sc):
        from spil import WriteToPaths
        self.lab.trees.reset()
        shutil.rmtree(self.saved, ignore_errors=True)
        w = WriteToPaths()
        for role, data in OTHERS:
            if role in al:
                w.create(al[role], data) if data else w.create(al[role])
        for op in sc["pre"]:
            apply_op(w, al, op)
        os.makedirs(self.root, exist_ok=True)
        shutil.copytree(self.root, self.saved, symlinks=True)

    def restore(self):
        shutil.rmtree(self.root, ignore_errors=True)
        shutil.copytree(self.saved, self.root, symlinks=True)

    def listing(self):
        out = {}
        for d, _dirs, files in os.walk(self.root):
            for f in files:
                p = os.path.join(d, f)
                try:
                    out[p[len(self.root):]] = open(p, "rb").read().decode("utf8", "replace")
                except OSError:
                    out[p[len(self.root):]] = "<unreadable>"
            if not files and not _dirs:
                out[d[len(self.root):] + "/"] = "<dir>"
        return out

    def cleanup(self):
        shutil.rmtree(self.saved, ignore_errors=True)


def judge_recovery(rec, sc, al, cut_desc, obs, old, new, case):
    rec.count("recoveries")
    role = sc["op"][1]
    c = dict(case, cut=cut_desc)
    if obs.get("errors"):
        rec.violation("recovery_raised", c, "; ".join(obs["errors"])[:600])
        return
    r = obs["reads"].get(role)
    if r != old["reads"].get(role) and r != new["reads"].get(role):
        rec.violation("neither_old_nor_new_data", c, "read %r ; old %r ; new %r" % (r, old["reads"].get(role), new["reads"].get(role)))
        return
    for other, e in al.items():
        if other == role:
            continue
        ro = obs["reads"].get(other)
        if ro != old["reads"].get(other) and ro != new["reads"].get(other):
            rec.violation("other_sid_data_changed", dict(c, other=other), "read %r ; before %r" % (ro, old["reads"].get(other)))
            return
    for s, found in obs["found"].items():
        if found != old["found"].get(s) and found != new["found"].get(s):
            rec.violation("search_result_neither_old_nor_new", dict(c, search=s), "%r vs old %r / new %r" % (found, old["found"].get(s), new["found"].get(s)))
            return
    if "next" in obs:
        if obs["next"] is not True:
            rec.violation("next_write_failed", c, repr(obs.get("next")))
            return
        exp = dict(r)
        exp["zz_next"] = "n"
        if obs.get("next_read") != exp:
            rec.violation("next_write_read_back_differs", c, "%r vs %r" % (obs.get("next_read"), exp))


def run_scenario(rec, lab, al, sc, args, rng, effect_lists):
    from lib import faults
    from spil import WriteToPaths
    arena = Arena(lab)
    arena.build(al, sc)
    role = sc["op"][1]
    case = {"scenario": sc["name"], "op": [sc["op"][0], sc["op"][1], sc["op"][2]], "pre": [list(p) for p in sc["pre"]]}
    rec.count("scenarios")
    # reference states (forked, real code)
    st, old = faults.fork_run(lambda: observe(al, role, False))
    pre_listing = arena.listing()

    def full_op():
        apply_op(WriteToPaths(), al, sc["op"])
        return observe(al, role, False)
    st, new = faults.fork_run(full_op)
    post_listing = arena.listing()
    arena.restore()
    if not old or not new or "_exception" in (old or {}) or "_exception" in (new or {}):
        rec.inconclusive.append("reference run failed for %s: %r %r" % (sc["name"], old, new))
        return
    if new["reads"].get(role) == old["reads"].get(role):
        rec.inconclusive.append("scenario %s does not change the data" % sc["name"])
        return

    # recording pass (injector A)
    def record():
        ip = faults.Interposer(arena.root, "record").install()
        apply_op(WriteToPaths(), al, sc["op"])
        return ip.effects
    st, effects = faults.fork_run(record)
    arena.restore()
    if not isinstance(effects, list) or not effects:
        rec.inconclusive.append("no python-visible effects recorded for %s: %r" % (sc["name"], effects))
        return
    effect_lists.append({"scenario": sc["name"], "effects": [[e[0], os.path.basename(e[1])] + e[2:] for e in effects]})
    cuts = []
    for k, eff in enumerate(effects):
        cuts.append({"effect": k})
        if eff[0] == "write":
            n = int(eff[2])
            step = args["byte_step"]
            for j in sorted(set(list(range(0, n + 1, step)) + [n, max(0, n - 1), 1])):
                if j <= n:
                    cuts.append({"effect": k, "prefix": j})
    cuts.append({"effect": len(effects)})   # after the last effect, before returning
    for ci, cut in enumerate(cuts):
        def crash(cut=cut):
            faults.Interposer(arena.root, "cut", cut).install()
            apply_op(WriteToPaths(), al, sc["op"])
            return "completed"
        st, res = faults.fork_run(crash)
        rec.ev()
        rec.count("cuts_A")
        if "prefix" in cut:
            rec.count("cuts_A_prefix")
        if st not in (faults.EXIT_CUT, 0):
            rec.violation("operation_failed_under_interposer", dict(case, cut=cut), "status %r result %r" % (st, res))
            arena.restore()
            continue
        lst = arena.listing()
        if lst != pre_listing and lst != post_listing:
            rec.nt("%s|A|%s" % (sc["name"], json.dumps(cut, sort_keys=True)))
        fresh = (ci % 37 == 5)
        if fresh:
            rec.count("fresh_recoveries")
            obs = fresh_observe(al, role)
        else:
            st2, obs = faults.fork_run(lambda: observe(al, role, True))
        if obs is None or "_exception" in obs:
            rec.violation("recovery_raised", dict(case, cut=cut), repr(obs)[:500])
        else:
            judge_recovery(rec, sc, al, dict(cut, injector="A", effect_kind=(effects[cut["effect"]][0] if cut["effect"] < len(effects) else "end")), obs, old, new, case)
        arena.restore()
    return effects


def run_strace(rec, lab, al, sc, effects):
    from lib import faults
    from spil import WriteToPaths
    arena = Arena(lab)
    arena.build(al, sc)
    role = sc["op"][1]
    case = {"scenario": sc["name"], "op": [sc["op"][0], sc["op"][1], sc["op"][2]], "pre": [list(p) for p in sc["pre"]]}
    st, old = faults.fork_run(lambda: observe(al, role, False))

    def full_op():
        apply_op(WriteToPaths(), al, sc["op"])
        return observe(al, role, False)
    st, new = faults.fork_run(full_op)
    arena.restore()

    def op():
        apply_op(WriteToPaths(), al, sc["op"])
    st, lines, attached = faults.strace_run(op, arena.root)
    arena.restore()
    if not attached:
        rec.inconclusive.append("strace did not attach")
        return
    rec.count("strace_attached")
    calls = faults.parse_trace(lines, arena.root)
    if not calls:
        rec.inconclusive.append("strace saw no mutating syscall for %s" % sc["name"])
        return
    # completeness of injector A: every kind of mutating syscall must be explained by a recorded python-level effect
    explains = {"open_w": {"openat", "open", "creat"}, "os.open_w": {"openat", "open", "creat"}, "write": {"write", "pwrite64", "writev"},
                "replace": {"rename", "renameat", "renameat2"}, "rename": {"rename", "renameat", "renameat2"},
                "mkdir": {"mkdir", "mkdirat"}, "unlink": {"unlink", "unlinkat"}, "remove": {"unlink", "unlinkat"},
                "utime": {"utimensat"}, "truncate": {"truncate", "ftruncate"}}
    explained = set()
    for e in effects or []:
        explained |= explains.get(e[0], set())
    # open(...,'w') truncates through O_TRUNC in openat; fsync etc. would be new kinds
    unexplained = {c[0] for c in calls} - explained
    if unexplained:
        rec.inconclusive.append("kernel-level mutating syscalls without python-level effect in %s: %s" % (sc["name"], sorted(unexplained)))
    rec.count("B_syscalls_seen", len(calls))
    for name, ordinal, line in calls:
        st, lines2, attached2 = faults.strace_run(op, arena.root, inject=(name, ordinal))
        rec.ev()
        if not attached2:
            arena.restore()
            continue
        rec.count("cuts_B")
        if st != -9:
            rec.count("B_not_killed")
            arena.restore()
            continue
        rec.nt("%s|B|%s|%d" % (sc["name"], name, ordinal))
        st2, obs = faults.fork_run(lambda: observe(al, role, True))
        if obs is None or "_exception" in obs:
            rec.violation("recovery_raised", dict(case, cut={"injector": "B", "syscall": name, "ordinal": ordinal}), repr(obs)[:500])
        else:
            judge_recovery(rec, sc, al, {"injector": "B", "syscall": name, "ordinal": ordinal, "line": line[-160:]}, obs, old, new, case)
        arena.restore()
    arena.cleanup()


INVALID_DOCS = [b'{"k1": "line one\nline two", "k2": [1, 2, 3]}', b'{"k1": "tab\there"}', b'{"k1": "ctl\x01"}', b'{"k1": "x",}',
                b"{'k1': 'x'}", b'{"k1": "x"} trailing', b'{"k1": "x"}{"k2": 1}', b'\xef\xbb\xbf{"k1": "x"}']


def run_corruption(rec, lab, al, args, rng):
    """Second clause: a corrupt sidecar blanks only that Sid's data."""
    from lib import faults
    from spil import WriteToPaths, conf
    from pathlib import Path
    arena = Arena(lab)
    pre = [("create", "V", {"v": "data"}), ("create", "F1", {"k1": "OLD", "k2": [1, 2, 3], "k3": {"a": "b"}})]
    if "P" in al:
        pre.append(("create", "P", {"k1": "PDATA"}))
    sc = {"name": "corruption", "pre": pre, "op": ("set", "F1", {"k1": "x"})}
    arena.build(al, sc)
    st, base = faults.fork_run(lambda: observe(al, "F1", False))
    p, _f = lab.trees.path_of(lab.default_config, al["F1"])
    side = str(conf.get_data_json_path(Path(p)))
    content = open(side, "rb").read()
    cases = [("truncate", j) for j in range(0, len(content), args["corrupt_step"])]
    cases += [("emptied", 0), ("directory", 0), ("garbage", 0), ("unreadable_EACCES", 0), ("unreadable_EIO", 0), ("nul_bytes", 0)]
    # complete documents that are NOT valid JSON (RFC 8259): a raw control character inside a string, a trailing comma, single quotes
    cases += [("invalid_doc", i) for i in range(len(INVALID_DOCS))]
    side_p = None
    if "P" in al:
        pp, _f = lab.trees.path_of(lab.default_config, al["P"])
        side_p = str(conf.get_data_json_path(Path(pp)))
        if side_p != side:
            cases += [("two_sidecars_garbage", 0), ("two_sidecars_emptied", 0)]
    for kind, j in cases:
        arena.restore()
        inject_errno = None
        if kind == "truncate":
            open(side, "wb").write(content[:j])
            try:
                json.loads(content[:j].decode("utf8", "replace"))
                continue   # still valid JSON: outside the clause
            except ValueError:
                pass
        elif kind == "emptied":
            open(side, "wb").close()
        elif kind == "directory":
            os.unlink(side)
            os.mkdir(side)
        elif kind == "garbage":
            open(side, "wb").write(b"\xff\xfe not json {{{")
        elif kind == "invalid_doc":
            open(side, "wb").write(INVALID_DOCS[j])
            rec.count("invalid_but_complete_documents")
        elif kind == "two_sidecars_garbage":
            open(side, "wb").write(b"\xff\xfe not json {{{")
            open(side_p, "wb").write(b"{ not json either")
        elif kind == "two_sidecars_emptied":
            open(side, "wb").close()
            open(side_p, "wb").close()
        elif kind == "nul_bytes":
            open(side, "wb").write(b"\0" * len(content))
        else:
            import errno
            inject_errno = errno.EACCES if kind.endswith("EACCES") else errno.EIO
        rec.ev()
        rec.count("corruptions")
        rec.nt("corrupt|%s|%d" % (kind, j))

        def obs_fn(inject_errno=inject_errno):
            if inject_errno is not None:
                import io
                import builtins
                real = io.open

                def failing(file, *a, **kw):
                    try:
                        if os.path.realpath(os.fspath(file)) == os.path.realpath(side):
                            raise OSError(inject_errno, os.strerror(inject_errno), side)
                    except TypeError:
                        pass
                    return real(file, *a, **kw)
                io.open = failing
                builtins.open = failing
            return observe(al, "F1", False)
        st, obs = faults.fork_run(obs_fn)
        c = {"scenario": "corruption", "corruption": kind, "at": j}
        if obs is None or "_exception" in obs:
            rec.violation("read_failed_on_corrupt_sidecar", c, repr(obs)[:500])
            continue
        if obs["errors"]:
            rec.violation("read_or_search_raised_on_corrupt_sidecar", c, "; ".join(obs["errors"])[:500])
            continue
        r = obs["reads"]["F1"]
        if r != {"sid": al["F1"]}:
            rec.violation("corrupt_sidecar_read_is_not_just_sid", c, repr(r))
        corrupt_roles = {"F1", "F2"} | ({"P"} if kind.startswith("two_sidecars") else set())
        corrupt_sids = {al[x] for x in corrupt_roles if x in al}
        if kind.startswith("two_sidecars"):
            rec.count("two_corrupt_sidecars")
            if obs["reads"].get("P") != {"sid": al["P"]}:
                rec.violation("corrupt_sidecar_read_is_not_just_sid", dict(c, sid=al["P"]), repr(obs["reads"].get("P")))
        for role in corrupt_roles & set(al):
            if obs["reads_noenc"].get(role) != {} and obs["reads"].get(role) == {"sid": al[role]}:
                rec.violation("corrupt_sidecar_read_without_sid_entry_is_not_empty", dict(c, sid=al[role]), repr(obs["reads_noenc"].get(role)))
        for s, recs in obs["records"].items():
            found = obs["found"].get(s) or []
            if sorted(str(d.get("sid")) for d in recs) != sorted(found):
                rec.violation("records_do_not_carry_the_found_sids_with_corrupt_sidecar", dict(c, search=s),
                              "records %r for found %r" % ([d.get("sid") for d in recs], found))
                continue
            base_by_sid = {d.get("sid"): d for d in base["records"].get(s, [])}
            for d in recs:
                exp = {"sid": d["sid"]} if d["sid"] in corrupt_sids else base_by_sid.get(d["sid"])
                if d != exp:
                    rec.violation("record_differs_with_corrupt_sidecar", dict(c, search=s, sid=d["sid"]), "%r expected %r" % (d, exp))
        for role in al:
            if role in corrupt_roles:
                continue
            if obs["reads"].get(role) != base["reads"].get(role):
                rec.violation("corrupt_sidecar_changed_other_sid", dict(c, other=role), "%r vs %r" % (obs["reads"].get(role), base["reads"].get(role)))
        for s, found in obs["found"].items():
            if found != base["found"].get(s):
                rec.violation("corrupt_sidecar_changed_search", dict(c, search=s), "%r vs %r" % (found, base["found"].get(s)))
    arena.restore()
    arena.cleanup()


def worker(args):
    from lib.findlab import Lab
    from checks import c15
    rec = Rec("C17")
    lab = Lab(args.get("seed", 0))
    al = c15.build_alphabet(lab)
    # an extra, unrelated task folder
    segs = al["G"].split("/")
    al["T2"] = "/".join(segs[:5])
    rng = lab.rng
    effect_lists = []
    if "replay" in args:
        c = args["replay"]
        if c.get("scenario") == "corruption":
            run_corruption(rec, lab, al, {"corrupt_step": 1}, rng)
        else:
            sc = {"name": c["scenario"], "pre": [tuple(p) for p in c["pre"]], "op": tuple(c["op"])}
            eff = run_scenario(rec, lab, al, sc, {"byte_step": 1}, rng, effect_lists)
            run_strace(rec, lab, al, sc, eff)
        lab.trees.reset()
        res = rec.result()
        res["effect_lists"] = effect_lists
        return res
    scs = scenarios(al, args["scenarios"])
    for i, sc in enumerate(scs):
        if i % args["nshards"] != args["shard"]:
            continue
        eff = run_scenario(rec, lab, al, sc, args, rng, effect_lists)
        if i < args["strace_scenarios"]:
            run_strace(rec, lab, al, sc, eff)
    if args["shard"] == args["nshards"] - 1:
        run_corruption(rec, lab, al, args, rng)
    if effect_lists:
        rec.sample(effect_lists[0])
    lab.trees.reset()
    res = rec.result()
    res["effect_lists"] = effect_lists
    return res
