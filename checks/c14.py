"""C14 — Sids are immutable values: equal means same uri, and nothing can alter one."""
import itertools
import random

from lib import driver
from lib.rec import Rec

LEVEL = "exploration"
RULE = ("(a) pair laws (== <-> same uri, equal => equal hash, == str <-> same string, sorting by string, set/dict behaviour) on "
        "all pairs inside batches of 100 Sids from the C01/C02 families incl. same-string Sids of different forced types and "
        "untyped Sids; (b) random sequences (<=30) of public operations on a Sid, on Sids derived from it and on other Sids "
        "with the same string, with mutation attempts on every returned container; the M-reg registry (fed by a wrapper on the "
        "Sid factory) snapshots (string, type, fields, uri, hash) of every Sid created in the process and re-validates all of "
        "them after every step. Non-trivial = distinct pair of distinct uris sharing a string or a type, or distinct (sid, "
        "operation sequence).")
ASSUME = ["exceptions raised by an operation are not C14 violations (other properties own them); only changed Sids are",
          "private attributes (_fields, _string) are not assigned by the workload: only public operations and returned containers"]
BUDGET = {"quick": (400, 1200), "thorough": (16000, 64000)}   # (pair batches, sequences)
NSHARDS = 16


def shard_args(tier, seed):
    b, s = BUDGET[tier]
    return [{"batches": b // NSHARDS, "seqs": s // NSHARDS, "seed": seed * 1000 + i} for i in range(NSHARDS)]


def floors(m, tier):
    b, s = BUDGET[tier]
    return {"pairs": (m.counters.get("pairs", 0), b * 2000),
            "same-string different-type pairs": (m.counters.get("same_string_diff_type", 0), 50),
            "sequences": (m.counters.get("sequences", 0), s // 2),
            "M-reg validations": (m.monitor.get("M-reg", 0), s * 20),
            "container mutation attempts": (m.counters.get("mutation_attempts", 0), s)}


def run(snap, tier, seed, t0, replay):
    return driver.simple_run("C14", snap, tier, seed, t0, replay, LEVEL, RULE, ASSUME, shard_args, floors_fn=floors)


C14_NAMES = ["ophelia", "two words", "x", "a b ", "dagger"]      # (values with blanks: some helpers normalise them)


class Registry:
    def __init__(self, rec):
        self.rec = rec
        self.items = {}   # id -> (obj, snapshot)

    @staticmethod
    def snap(x):
        return (str(x), x.type, tuple(x.fields.items()), x.uri, hash(x),
                x._string, x._type, tuple(x._fields.items()))

    paused = False

    def register(self, x):
        if self.paused:
            return
        if id(x) not in self.items:
            try:
                self.items[id(x)] = (x, self.snap(x))
            except Exception:
                pass

    def validate(self, context):
        n = 0
        for x, sn in list(self.items.values()):
            n += 1
            try:
                now = self.snap(x)
            except Exception as e:
                self.rec.violation("sid_unreadable", context, repr(e))
                continue
            if now != sn:
                c = dict(context)
                c["sid"] = sn[3]
                self.rec.violation("sid_changed", c, "before=%r after=%r" % (sn, now))
                self.items[id(x)] = (x, now)
        self.rec.mon("M-reg", n)

    def reset(self):
        self.items = {}


def install(rec):
    from spil.sid.core import sid_factory as sf
    from lib import monitors
    reg = Registry(rec)

    def after(args, kwargs, res, exc, token):
        if res is not None:
            reg.register(res)
    monitors.wrap_function(sf, "sid_factory", after)
    return reg


def pair_laws(rec, sids, Sid):
    for a, b in itertools.combinations(sids, 2):
        rec.count("pairs")
        eq = (a == b)
        exp = (a.uri == b.uri)
        case = {"pair": [a.uri, b.uri]}
        if str(a) == str(b) and a.type != b.type:
            rec.count("same_string_diff_type")
            rec.nt("P|%s|%s" % (a.uri, b.uri))
        elif a.type == b.type and a.uri != b.uri and a.type:
            rec.nt("P|%s|%s" % (a.uri, b.uri))
        if eq != exp or (b == a) != exp or (a != b) == exp:
            rec.violation("eq_vs_uri", case, "== %r, uri equal %r" % (eq, exp))
        if eq and hash(a) != hash(b):
            rec.violation("equal_but_hash_differs", case, "")
        sb = str(b)
        if (a == sb) != (str(a) == sb):
            rec.violation("eq_str", case, "a==str(b): %r" % (a == sb))
        if (a < b) != (str(a) < str(b)):
            rec.violation("lt", case, "")
    # sorting, sets, dicts
    rec.count("collections")
    srt = sorted(sids)
    strs = [str(x) for x in srt]
    if strs != sorted(strs):
        rec.violation("sorted_not_by_string", {"sids": [x.uri for x in sids][:40]}, "")
    uris = {x.uri for x in sids}
    if len(set(sids)) != len(uris):
        rec.violation("set_size", {"sids": [x.uri for x in sids][:40]}, "%d vs %d distinct uris" % (len(set(sids)), len(uris)))
    d = {x: x.uri for x in sids}
    for x in sids[:30]:
        y = Sid(x.uri)
        if x.uri == y.uri and d.get(y) != x.uri:
            rec.violation("dict_lookup", {"s": x.uri}, "equal rebuilt sid not found in dict")


OPS = ["copy_module", "fields_source_mutate", "fields_mutate", "get_with_kw", "get_with_query", "get_as", "parent", "div", "copy", "as_query", "match", "path",
       "misc", "unfold", "same_string_other_type", "rebuild", "children", "derived_mutate", "set_ops", "get_with_none"]


def run_sequence(rec, reg, model, vocab, Sid, rng, s, ops):
    from spil.sid.read.tools import unfold_search
    case = {"s": s, "ops": ops}
    x = Sid(s)
    derived = [x]
    for step, op in enumerate(ops):
        y = rng.choice(derived)
        try:
            if op == "fields_mutate":
                d = y.fields
                rec.count("mutation_attempts")
                for k in list(d):
                    d[k] = "MUTATED"
                d["extra"] = "1"
                d2 = y.fields
                d2.clear()
                d3 = y.fields
                d3.update({"project": "zz"})
                if d3:
                    d3.pop(next(iter(d3)))
            elif op == "get_with_kw":
                keys = list(y.fields) or ["project"]
                derived.append(y.get_with(**{rng.choice(keys): rng.choice(["*", "zz", "v001", "hamlet", ">"])}))
            elif op == "get_with_none":
                keys = list(y.fields) or ["project"]
                derived.append(y.get_with(**{rng.choice(keys): None}))
            elif op == "get_with_query":
                keys = list(y.fields) or ["project"]
                derived.append(y.get_with(query="%s=%s" % (rng.choice(keys), rng.choice(["*", "~zz", "v001", "s", "a"]))))
            elif op == "get_as":
                keys = list(y.fields) or ["project"]
                derived.append(y.get_as(rng.choice(keys)))
            elif op == "parent":
                derived.append(y.parent)
            elif op == "div":
                derived.append(y / rng.choice(["*", "x", "v001", "w", "ma"]))
            elif op == "copy":
                derived.append(y.copy())
            elif op == "fields_source_mutate":
                d = y.fields          # ordered like the template
                if d:
                    z = Sid(fields=d)
                    reg.register(z)
                    rec.count("mutation_attempts")
                    for k in list(d):
                        d[k] = "MUTATED-SOURCE"
                    d.clear()
                    derived.append(z)
            elif op == "copy_module":
                import copy
                import pickle
                for fn in (copy.copy, copy.deepcopy, lambda z: pickle.loads(pickle.dumps(z))):
                    try:
                        reg.paused = True      # (the copy under construction is born empty inside copy/pickle: not yet a value)
                        z = fn(y)
                    except Exception:
                        rec.count("copy_module_exception")
                        continue
                    finally:
                        reg.paused = False
                    reg.register(z)
                    if not (z == y and str(z) == str(y) and z.type == y.type and z.fields == y.fields):
                        rec.violation("copy_module_differs", dict(case, step=step, op=op), "%r vs %r" % (z, y))
                    derived.append(z)
                # empties must still be empty
                derived.append(Sid())
                derived.append(y.get_as("no_such_key"))
            elif op == "as_query":
                y.as_query()
            elif op == "match":
                y.match(rng.choice([str(y), "*", str(x)]))
            elif op == "path":
                p = y.path()
                y.path("server")
            elif op == "misc":
                (y.is_search(), y.is_leaf(), y.keytype, y.basetype, len(y), y.get("project"), repr(y), str(y), y.uri, hash(y), bool(y))
            elif op == "unfold":
                lst = unfold_search(rng.choice([str(y), y, str(y) + "/**"]))
                for z in lst:
                    reg.register(z)
                rec.count("mutation_attempts")
                lst2 = list(lst)
                derived.extend(lst2[:3])
            elif op == "same_string_other_type":
                for t in model.all_types(str(y)):
                    derived.append(Sid(t.name + ":" + str(y)))
            elif op == "rebuild":
                derived.append(Sid(str(y)))
                derived.append(Sid(y.uri))
                if y.fields:
                    derived.append(Sid(fields=y.fields))
            elif op == "children":
                for lst in (y.children(), y.siblings()):
                    rec.count("mutation_attempts")
                    lst.clear()
                y.exists()
            elif op == "derived_mutate":
                z = rng.choice(derived)
                d = z.fields
                rec.count("mutation_attempts")
                d.clear()
            elif op == "set_ops":
                st = set(derived)
                dd = {z: 1 for z in derived}
                sorted(derived)
        except Exception as e:
            rec.count("op_exception:" + type(e).__name__)
        derived = derived[-12:]
        reg.validate(dict(case, step=step, op=op))
    return x


def worker(args):
    from spil import conf, Sid
    from lib.refmodel import SidModel
    from lib import gen
    rec = Rec("C14")
    model = SidModel(conf)
    reg = install(rec)
    vocab = gen.Vocab(model)
    rng = random.Random(args.get("seed", 0))
    usable = [t for t in model.templates if vocab.usable(t)]
    lits = gen.all_values_of_other_levels(vocab, rng)
    if "replay" in args:
        c = args["replay"]
        rec.ev()
        if "ops" in c:
            run_sequence(rec, reg, model, vocab, Sid, rng, c["s"], c["ops"])
        elif "pair" in c:
            pair_laws(rec, [Sid(u) for u in c["pair"]], Sid)
        elif "sids" in c:
            pair_laws(rec, [Sid(u) for u in c["sids"]], Sid)
        return rec.result()

    def some_string():
        t = rng.choice(usable)
        r = rng.random()
        if r < 0.4:
            return vocab.valid_string(t, rng, small=True, pool=C14_NAMES)
        if r < 0.8:
            return vocab.search_string(t, rng, small=True, pool=C14_NAMES, p_sym=0.6)[0]
        return gen.mutate_string(vocab.valid_string(t, rng, small=True), rng, vocab, lits)[0]

    for b in range(args["batches"]):
        sids = []
        while len(sids) < 100:
            s = some_string()
            if "?" in s:
                continue
            try:
                x = Sid(s)
            except Exception:
                continue
            sids.append(x)
            if x and rng.random() < 0.5:
                for t in model.all_types(str(x)):
                    sids.append(Sid(t.name + ":" + str(x)))
            if rng.random() < 0.2:
                sids.append(Sid(x.uri))
        rec.ev()
        pair_laws(rec, sids, Sid)
        reg.validate({"batch": b})
        reg.reset()
        if b % 97 == 0:
            rec.sample({"batch_of": [x.uri for x in sids[:6]]})
    for q in range(args["seqs"]):
        s = some_string()
        if "?" in s:
            continue
        ops = [rng.choice(OPS) for _ in range(rng.randint(3, 30))]
        rec.ev()
        rec.count("sequences")
        rec.nt("S|%s|%s" % (s, ",".join(ops)))
        try:
            run_sequence(rec, reg, model, vocab, Sid, rng, s, ops)
        except Exception as e:
            rec.count("sequence_exception:" + type(e).__name__)
        reg.reset()
        if q % 397 == 0:
            rec.sample({"sid": s, "ops": ops[:10]})
    return rec.result()
