"""C03 — parent, get_as and '/' navigate one consistent hierarchy."""
import random

from lib import driver
from lib.rec import Rec

LEVEL = "exploration"
RULE = ("G2 typed Sids (concrete and search, every configured type incl. forced-type Sids) x every key of their fields: "
        "get_as(k) / parent / '/' / len / keytype / basetype relations checked against the recorded fields and string; "
        "untyped Sids from the G1 mutation classes checked for empty-Sid navigation. Non-trivial = distinct (uri, key) pair "
        "with at least 2 fields, or distinct untyped string.")
ASSUME = ["'parent / last value == sid' is judged on naturally typed Sids only (string concatenation cannot carry a forced type)"]
BUDGET = {"quick": 20000, "thorough": 1600000}
NSHARDS = 16


def shard_args(tier, seed):
    n = BUDGET[tier] // NSHARDS
    return [{"n": n, "seed": seed * 1000 + i} for i in range(NSHARDS)]


def floors(m, tier):
    return {"typed sids": (m.counters.get("typed", 0), BUDGET[tier] // 3),
            "untyped sids": (m.counters.get("untyped", 0), BUDGET[tier] // 20),
            "get_as evaluations": (m.counters.get("get_as", 0), BUDGET[tier]),
            "forced-type sids": (m.counters.get("forced", 0), 50),
            "sids carrying a refused query": (m.counters.get("refused_query_sids", 0), 200),
            "query-built sids": (m.counters.get("query_built", 0), 200),
            "path-built sids": (m.counters.get("path_built", 0), 200)}


def run(snap, tier, seed, t0, replay):
    return driver.simple_run("C03", snap, tier, seed, t0, replay, LEVEL, RULE, ASSUME, shard_args, floors_fn=floors)


def is_empty(x):
    return (not x) and str(x) == "" and x.type == "" and x.fields == {} and len(x) == 0


def check_typed(rec, model, Sid, s, natural=True, from_path=None):
    case = {"s": s}
    x = Sid(s)
    if not x:
        return check_untyped(rec, Sid, s)
    if from_path:
        # the same entity, but BUILT FROM ITS PATH (this is also how FindInPaths builds its results)
        c = from_path
        case["from_path_config"] = c
        try:
            p = x.path(c)
            y = Sid(path=p, config=c) if p is not None else None
        except Exception:
            y = None
        if not y:
            return x
        rec.count("path_built")
        if list(y.fields.items()) != list(x.fields.items()):
            rec.violation("path_built_field_order", dict(case), "%r vs %r" % (list(y.fields.items()), list(x.fields.items())))
        x = y
    rec.count("typed")
    if not natural:
        rec.count("forced")
    if s.endswith("\n"):
        # witness detail for the trailing-newline known finding (same mechanism as C01's)
        body = s.split(":", 1)[1] if ":" in s else s
        case["got_type"] = x.type
        case["type_without_trailing_nl"] = x.type if model.accepts(x.type, body[:-1]) and not model.accepts(x.type, body) else None
    items = list(x.fields.items())
    keys = [k for k, _ in items]
    segs = str(x).split("/")
    sep = model.sep

    def bad(kind, detail):
        rec.violation(kind, dict(case), detail)

    try:
        if len(x) != len(items):
            bad("len", "%r != %r" % (len(x), len(items)))
        if len(segs) != len(items):
            bad("string_segments", "%r vs %r" % (segs, items))
        if x.keytype != keys[-1]:
            bad("keytype", "%r != %r" % (x.keytype, keys[-1]))
        if x.basetype != x.type.split(sep)[0]:
            bad("basetype", "%r vs type %r" % (x.basetype, x.type))
        for i, k in enumerate(keys):
            rec.count("get_as")
            rec.nt(x.uri + "|" + k) if len(keys) > 1 else None
            g = x.get_as(k)
            if not g:
                bad("get_as_untyped", "get_as(%r) -> %r" % (k, g))
                continue
            if list(g.fields.items()) != items[:i + 1]:
                bad("get_as_fields", "get_as(%r).fields=%r" % (k, g.fields))
            if str(g) != "/".join(segs[:i + 1]):
                bad("get_as_string", "get_as(%r)=%r" % (k, str(g)))
            if len(g) != i + 1:
                bad("get_as_len", "get_as(%r) len %r" % (k, len(g)))
        # a key that is not there
        if x.get_as("no_such_key__") or str(x.get_as("no_such_key__")) != "":
            bad("get_as_missing_key", repr(x.get_as("no_such_key__")))
        p = x.parent
        if len(keys) == 1:
            if not (p == x and p.type == x.type and str(p) == str(x)):
                bad("root_parent", "parent of one-field sid: %r" % p)
        else:
            g = x.get_as(keys[-2])
            if not (p == g and p.type == g.type and p.fields == g.fields):
                bad("parent_vs_get_as", "%r vs %r" % (p, g))
            if len(p) != len(x) - 1:
                bad("parent_len", "%r" % len(p))
            if natural:
                rec.count("div")
                back = p / items[-1][1]
                if not (back == x and back.type == x.type and back.fields == x.fields):
                    bad("parent_div_last", "%r / %r = %r" % (p, items[-1][1], back))
            # chain
            cur, steps = x, 0
            while len(cur) > 1 and steps < 40:
                cur = cur.parent
                steps += 1
            if steps != len(keys) - 1 or len(cur) != 1 or list(cur.fields.items()) != items[:1]:
                bad("parent_chain", "steps=%d end=%r" % (steps, cur))
            if cur.parent != cur:
                bad("root_parent", "root %r parent %r" % (cur, cur.parent))
    except Exception as e:
        bad("raised", repr(e))
    return x


def check_refused_query(rec, model, Sid, s, tail):
    """A typed Sid that carries a REFUSED query (type and fields untouched, query text kept in the string - C04): the navigations
    are judged on its fields (its string is not the canonical rendering, so the string clauses do not apply)."""
    case = {"s": s, "refused_query": tail}
    try:
        y = Sid(s + "?" + tail)
    except Exception as e:
        rec.violation("raised", case, repr(e))
        return
    if not y or "?" not in str(y):
        return
    rec.count("refused_query_sids")
    items = list(y.fields.items())
    keys = [k for k, _ in items]

    def bad(kind, detail):
        rec.violation(kind, dict(case), detail)
    try:
        if len(y) != len(items):
            bad("len", "%r != %r" % (len(y), len(items)))
        if y.keytype != keys[-1]:
            bad("keytype", "%r != %r" % (y.keytype, keys[-1]))
        if y.basetype != y.type.split(model.sep)[0]:
            bad("basetype", "%r vs type %r" % (y.basetype, y.type))
        for i, k in enumerate(keys):
            g = y.get_as(k)
            if not g or list(g.fields.items()) != items[:i + 1]:
                bad("get_as_fields", "get_as(%r) -> %r" % (k, g))
        p = y.parent
        if len(keys) == 1:
            if not (p == y and p.type == y.type):
                bad("root_parent", "parent of one-field sid: %r" % p)
        else:
            if list(p.fields.items()) != items[:-1] or len(p) != len(y) - 1:
                bad("parent_vs_get_as", "parent %r of %r" % (p, y))
        if y.get_as("no_such_key__"):
            bad("get_as_missing_key", repr(y.get_as("no_such_key__")))
    except Exception as e:
        bad("raised", repr(e))


def check_untyped(rec, Sid, s):
    case = {"s": s}
    try:
        x = Sid(s)
    except Exception as e:
        rec.violation("raised", case, repr(e))
        return None
    if x:
        return x
    rec.count("untyped")
    rec.nt("U|" + s)
    try:
        if not is_empty(x.parent):
            rec.violation("untyped_parent", case, repr(x.parent))
        for k in ("project", "type", "ext", "x"):
            if not is_empty(x.get_as(k)):
                rec.violation("untyped_get_as", case, repr(x.get_as(k)))
        if len(x) != 0:
            rec.violation("untyped_len", case, str(len(x)))
        x.keytype
        x.basetype
    except Exception as e:
        rec.violation("untyped_raised", case, repr(e))
    return x


def worker(args):
    from spil import conf, Sid
    from lib.refmodel import SidModel
    from lib import gen
    from checks import c01
    rec = Rec("C03")
    model = SidModel(conf)
    fin = c01.side_monitor(rec, model)
    vocab = gen.Vocab(model)
    rng = random.Random(args.get("seed", 0))
    if "replay" in args:
        s = args["replay"]["s"]
        rec.ev()
        if args["replay"].get("refused_query"):
            check_refused_query(rec, model, Sid, s, args["replay"]["refused_query"])
        else:
            check_typed(rec, model, Sid, s, natural=":" not in s, from_path=args["replay"].get("from_path_config"))
        fin()
        return rec.result()
    usable = [t for t in model.templates if vocab.usable(t)]
    lits = gen.all_values_of_other_levels(vocab, rng)
    for it in range(args["n"]):
        t = usable[it % len(usable)]
        r = rng.random()
        rec.ev()
        if r < 0.08:
            s = vocab.valid_string(t, rng, pool=gen.SAFE_NAME_POOL)
            x = check_typed(rec, model, Sid, s, from_path=rng.choice(list(conf.path_configs)))
        elif r < 0.4:
            s = vocab.valid_string(t, rng)
            x = check_typed(rec, model, Sid, s)
            if rng.random() < 0.25 and "?" not in s:
                check_refused_query(rec, model, Sid, s, rng.choice(["thumbnail=img/%s.png" % t.keys[0], "zz=1", "note=a/b/c", "zz=/", "a=b&c=d/e"]))
        elif r < 0.75:
            s, _ = vocab.search_string(t, rng, p_sym=rng.choice([0.2, 0.5, 1.0]))
            x = check_typed(rec, model, Sid, s)
        elif r < 0.85:
            s, _ = vocab.search_string(t, rng, p_sym=0.7)
            ts = model.all_types(s)
            t2 = rng.choice(ts) if ts else t
            s = t2.name + ":" + s
            x = check_typed(rec, model, Sid, s, natural=False)
        elif r < 0.91:
            # a Sid BUILT BY QUERY: some prefix as string, the remaining fields as a query in shuffled order
            segs = vocab.valid_segments(t, rng, pool=gen.SAFE_NAME_POOL)
            if any(not v or set(v) & set(" &=%+#?~;") for v in segs):
                continue
            k = rng.randrange(0, t.nseg)
            rest = list(zip(t.keys[k:], segs[k:]))
            rng.shuffle(rest)
            s = "/".join(segs[:k]) + "?" + "&".join("%s=%s" % p for p in rest)
            rec.count("query_built")
            x = check_typed(rec, model, Sid, s)
        else:
            s, cls = gen.mutate_string(vocab.valid_string(t, rng), rng, vocab, lits)
            if "?" in s:
                continue
            x = check_typed(rec, model, Sid, s) if ":" not in s else check_untyped(rec, Sid, s)
        if it % 1499 == 0 and x is not None:
            rec.sample({"input": s, "uri": x.uri, "parent": x.parent.uri})
    fin()
    return rec.result()
