"""C12 — exists, find_one, children and siblings agree with find."""
from lib import driver
from lib.rec import Rec

LEVEL = "exploration"
RULE = ('G5 universes (list + local/server trees) and G7 histories [calls, create(entity), calls, ...] (<=12 steps, entities created through the '
        'real WriteToPaths). Each step runs, on FindInList, FindInPaths(local, server) and FindInAll: exists(s) vs bool(find(s)), find_one(s) vs '
        'first of find(s) (Sid and string forms, empty results), as_sid=True vs as_sid=False; and on concrete Sids (existing or not): exists() '
        'vs R7 membership, children() vs R7 {e : e.parent == sid}, siblings() vs R7 {e : e.parent == sid.parent}, leaf => no children, every '
        'file-system result has an existing parent. A quarter of the searches is repeated with the search handed over as a Sid OBJECT (typed or '
        'not). After each create the model is updated and everything is asked again. Non-trivial = distinct (universe, step, call) whose find '
        'result is non-empty, or a Sid call on an existing entity.')
ASSUME = ["R7 (lib/existmodel) gives the existing set: path-backed levels from the tree, constant-backed levels from the live configuration's constants",
          "parent existence is not judged for levels that have neither a path template nor constants (reported as 'unbacked level')",
          "siblings of a one-field (root) Sid are not judged"]
BUDGET = {"quick": (128, 30), "thorough": (6400, 60)}
NSHARDS = 16


def shard_args(tier, seed):
    u, k = BUDGET[tier]
    return [{"universes": max(1, u // NSHARDS), "calls": k, "seed": seed * 1000 + i, "dataconf_variant": i % 4 == 2} for i in range(NSHARDS)]


def envs(snap, shard_args_list):
    # every fourth shard runs under a second data configuration (Finders / Getters created once per path configuration)
    from lib import dataconf_variant
    return dataconf_variant.envs(snap, shard_args_list)


def floors(m, tier):
    u, k = BUDGET[tier]
    c = m.counters
    return {"finder-level calls": (c.get("finder_calls", 0), u * k * 7 // 10),
            "non-empty finds": (c.get("nonempty", 0), u * k // 4),
            "Sid.exists evaluations": (c.get("sid_exists", 0), u * 10),
            "Sid.exists True": (c.get("sid_exists_true", 0), u * 3),
            "children evaluations": (c.get("children", 0), u * 5),
            "children non-empty": (c.get("children_nonempty", 0), u * 2),
            "siblings evaluations": (c.get("siblings", 0), u * 5),
            "creates": (c.get("creates", 0), u),
            "parent-exists evaluations": (c.get("parent_exists", 0), u * 5),
            "self-in-siblings evaluations": (c.get("self_in_siblings", 0), u * 3),
            "finds whose first result is untyped": (c.get("first_result_untyped", 0), 20)}


def run(snap, tier, seed, t0, replay):
    return driver.simple_run("C12", snap, tier, seed, t0, replay, LEVEL, RULE, ASSUME, shard_args, floors_fn=floors, envs_fn=envs)


def finder_clauses(rec, lab, name, f, s, case, as_object=False):
    from spil import Sid, SpilException
    c = dict(case, finder=name, search=s, kind_of_call="finder")
    if as_object:
        # the search handed over as a Sid OBJECT (typed or not: an or-list or a '**' search is an untyped Sid until it is unfolded);
        # the clauses relate exists / find_one to find FOR THE SAME ARGUMENT
        c["search_given_as"] = "Sid object"
        try:
            s = Sid(s)
        except Exception:
            return
        rec.count("searches_given_as_Sid_object")
        if not s:
            rec.count("searches_given_as_untyped_Sid_object")
    try:
        lst = list(f.find(s, as_sid=True))
        strs = list(f.find(s, as_sid=False))
        ex = f.exists(s)
        one = f.find_one(s)
        one_s = f.find_one(s, as_sid=False)
    except SpilException:
        rec.count("SpilException")
        return
    except Exception as e:
        rec.violation("finder_raised", c, repr(e))
        return
    rec.count("finder_calls")
    if lst and not lst[0]:
        rec.count("first_result_untyped")
    if lst:
        rec.count("nonempty")
        rec.nt("%s|%s|%s|%s%s" % (case["uid"], case.get("step"), name, s, "|obj" if as_object else ""))
    if [str(x) for x in lst] != strs:
        rec.violation("as_sid_vs_strings", c, "%r vs %r" % ([str(x) for x in lst][:5], strs[:5]))
    # (as_sid=True yields Sid objects, as_sid=False their strings: the TYPE of what is yielded belongs to the clause)
    if not all(isinstance(x, Sid) for x in lst) or not all(type(x) is str for x in strs):
        rec.violation("as_sid_yields_wrong_kind_of_object", c, "as_sid=True: %r ; as_sid=False: %r" % (
            sorted({type(x).__name__ for x in lst}), sorted({type(x).__name__ for x in strs})))
    if lst and one is not None and not isinstance(one, Sid):
        rec.violation("as_sid_yields_wrong_kind_of_object", c, "find_one: %r" % type(one).__name__)
    if bool(ex) != bool(lst) or not isinstance(ex, bool):
        rec.violation("exists_vs_find", c, "exists=%r find=%r" % (ex, strs[:3]))
    if lst:
        if not (str(one) == str(lst[0]) and (one == lst[0] or not lst[0])):
            rec.violation("find_one_vs_first", c, "find_one=%r first=%r" % (one, lst[0]))
        if one_s != strs[0]:
            rec.violation("find_one_str_vs_first", c, "find_one=%r first=%r" % (one_s, strs[0]))
    else:
        if one or str(one) != "":
            rec.violation("find_one_not_empty", c, repr(one))
        if one_s:
            rec.violation("find_one_str_not_empty", c, repr(one_s))


def sid_clauses(rec, lab, e, case):
    from spil import Sid
    x = Sid(e)
    if not x:
        return
    model = lab.model
    am = lab.allmodel
    c = dict(case, sid=e, kind_of_call="sid")
    try:
        ex = x.exists()
        exp = am.exists_all(e)
        rec.count("sid_exists")
        if exp:
            rec.count("sid_exists_true")
            rec.nt("%s|%s|sid|%s" % (case["uid"], case.get("step"), e))
        if bool(ex) != bool(exp):
            rec.violation("sid_exists_vs_model", c, "exists()=%r model=%r" % (ex, exp))
        # children
        kids = x.children()
        rec.count("children")
        leaf_key = model.leaf_keys.get(x.basetype)
        is_leaf = bool(x.get(leaf_key))
        if is_leaf:
            if kids:
                rec.violation("leaf_with_children", c, repr(kids[:3]))
        else:
            expk = am.ans_all(e + "/*")
            if expk is not None:
                if expk:
                    rec.count("children_nonempty")
                got = {str(k) for k in kids}
                if len(got) != len(kids):
                    rec.violation("children_duplicates", c, repr(kids[:6]))
                if got != expk:
                    rec.violation("children_vs_model", c, "missing=%r extra=%r" % (sorted(expk - got)[:5], sorted(got - expk)[:5]))
                for k in kids:
                    if k.parent != x:
                        rec.violation("child_parent_is_not_sid", c, "%r parent %r" % (k, k.parent))
                        break
        # an existing Sid shares its parent with itself: it is one of its own siblings (also for a root Sid)
        if exp:
            own = x.siblings()
            rec.count("self_in_siblings")
            if e not in {str(k) for k in own}:
                rec.violation("existing_sid_not_among_its_siblings", c, repr([str(k) for k in own][:6]))
        # siblings
        if len(x) > 1:
            sibs = x.siblings()
            rec.count("siblings")
            p = str(x.parent)
            exps = am.ans_all(p + "/*")
            if exps is not None:
                got = {str(k) for k in sibs}
                if got != exps:
                    rec.violation("siblings_vs_model", c, "missing=%r extra=%r" % (sorted(exps - got)[:5], sorted(got - exps)[:5]))
                for k in sibs:
                    if k.parent != x.parent:
                        rec.violation("sibling_parent_differs", c, "%r parent %r" % (k, k.parent))
                        break
    except Exception as ex_:
        rec.violation("sid_call_raised", c, repr(ex_))


def parent_clause(rec, lab, case):
    """Whatever FindInPaths finds has an existing parent (when the parent level is backed)."""
    from spil import Sid
    rng = lab.rng
    dflt = lab.default_config
    pm = lab.trees.pms[dflt]
    ex = sorted(lab.exists[dflt])
    for e in rng.sample(ex, min(6, len(ex))):
        x = Sid(e)
        if len(x) < 2:
            continue
        p = x.parent
        c = dict(case, sid=e, kind_of_call="parent")
        F = lab.allmodel.finder_for(p.type, str(p)) if p else None
        backed = bool(p) and (p.type in pm.templates or isinstance(F, lab.allmodel.FIC))
        if not backed:
            rec.unspec("unbacked_level")
            continue
        rec.count("parent_exists")
        try:
            if not p.exists():
                rec.violation("existing_entity_without_existing_parent", c, "parent %r" % p)
        except Exception as ex_:
            rec.violation("sid_call_raised", c, repr(ex_))


def legacy_finder(lab):
    """FindInList over the existing entities PLUS legacy strings that valid searches match textually but that cannot be typed."""
    from spil import FindInList
    from lib import universe
    import random
    L = list(lab.list) + universe.near_misses(random.Random(len(lab.list)), lab.list, max(4, len(lab.list) // 3))
    L = [e for e in L if e and "?" not in e]      # (an empty string is no entry)
    return FindInList(sorted(L))     # untyped near-misses sort among the valid entries and can come first


def one_step(rec, lab, ncalls, case):
    from lib.findlab import filter_is_unspecified, last_index
    rng = lab.rng
    lab.finders["list_legacy"] = legacy_finder(lab)
    from spil import FindInList
    # raw file lines (unstripped) with do_strip=True: Sid and string forms must still agree
    import random as _r
    case["strip_seed"] = rng.randrange(10 ** 6)
    _rs = _r.Random(case["strip_seed"])
    lab.finders["list_strip"] = FindInList([e + _rs.choice(["\n", " ", "\r\n", ""]) for e in lab.list], do_strip=True)
    for k in range(ncalls):
        s, info = lab.search(allow_last=(rng.random() < 0.15))
        if filter_is_unspecified(s):
            continue
        if ">" in s:
            try:
                kind, _ = last_index([f for _t, f in lab.allmodel.unfold(s)])
            except Exception:
                kind = "mixed"
            if kind == "mixed":
                rec.unspec("last_mixed")
                continue
        rec.ev()
        name = rng.choice(list(lab.finders))
        finder_clauses(rec, lab, name, lab.finders[name], s, case)
        if rng.random() < 0.25:
            finder_clauses(rec, lab, name, lab.finders[name], s, case, as_object=True)
    # Sid-level calls on existing and non-existing entities
    pool = list(lab.full)
    cands = rng.sample(pool, min(5, len(pool)))
    for e in list(cands):
        t = lab.model.natural(e)
        segs = e.split("/")
        i = rng.randrange(len(segs))
        segs[i] = lab.vocab.value(t, i, rng, pool=lab.names, small=True)
        ne = "/".join(segs)
        if lab.model.natural(ne) is not None and not lab.model.is_search_string(ne) and segs[-1] not in lab.model.alias:
            cands.append(ne)
    for e in cands:
        rec.ev()
        sid_clauses(rec, lab, e, case)
    parent_clause(rec, lab, case)


def worker(args):
    from lib.findlab import Lab
    from spil import WriteToPaths, FindInList, Sid
    rec = Rec("C12")
    lab = Lab(args.get("seed", 0))
    rng = lab.rng
    if "replay" in args:
        c = args["replay"]
        rec.ev()
        lab.new_universe(ents=c["ents"], names=c.get("names"), only_default=c.get("only_default"))
        for e in c.get("created", []):
            for cfg in lab.configs:
                try:
                    WriteToPaths(cfg).create(e)
                except Exception:
                    pass
        lab.refresh_exists(c.get("created", []))
        lab.finders["list"] = FindInList(list(lab.list))
        import random as _r
        lab.finders["list_legacy"] = legacy_finder(lab)
        _rs = _r.Random(c.get("strip_seed", 0))
        lab.finders["list_strip"] = FindInList([e + _rs.choice(["\n", " ", "\r\n", ""]) for e in lab.list], do_strip=True)
        if c.get("kind_of_call") == "finder":
            finder_clauses(rec, lab, c["finder"], lab.finders[c["finder"]], c["search"], dict(c), as_object=bool(c.get("search_given_as")))
        elif c.get("kind_of_call") == "sid":
            sid_clauses(rec, lab, c["sid"], dict(c))
        else:
            parent_clause(rec, lab, dict(c))
        lab.trees.reset()
        return rec.result()
    for u in range(args["universes"]):
        ents = lab.new_universe(n_leaves=rng.choice([6, 15, 30]))
        uid = "%s-%d" % (args.get("seed"), u)
        created = []
        steps = rng.randint(1, 5)
        for step in range(steps):
            case = {"ents": ents, "names": lab.names, "only_default": lab.only_default, "uid": uid, "step": step, "created": list(created)}
            one_step(rec, lab, max(2, args["calls"] // steps), case)
            # create a new entity (through the real writer) in every configuration
            for _ in range(rng.randint(1, 2)):
                t = rng.choice(lab.usable)
                e = lab.vocab.valid_string(t, rng, pool=lab.names, small=True)
                if lab.model.natural(e) is None or lab.model.is_search_string(e) or e.split("/")[-1] in lab.model.alias:
                    continue
                if lab.trees.path_of(lab.default_config, e)[0] is None or e in lab.exists[lab.default_config]:
                    continue
                ok = True
                for cfg in lab.configs:
                    try:
                        WriteToPaths(cfg).create(e)
                    except Exception as ex_:
                        ok = False      # (create itself is judged by C15, not here)
                        rec.count("create_failed_not_judged")
                if ok:
                    rec.count("creates")
                    created.append(e)
                    lab.refresh_exists([e])
                    lab.finders["list"] = FindInList(list(lab.list))
        case = {"ents": ents, "names": lab.names, "only_default": lab.only_default, "uid": uid, "step": steps, "created": list(created)}
        one_step(rec, lab, max(2, args["calls"] // steps), case)
        if u == 0:
            rec.sample({"entities": ents[:5], "created": created, "steps": steps})
    lab.trees.reset()
    return rec.result()
