"""C20 — the guarantees hold for any well-formed configuration, not only the demo one.

A configuration package is generated (lib/confgen) from a parameter vector, put first on the python path of fresh worker
processes, validated by the harness, and the SAME monitors / reference models as C01..C08 and C11 (they all read the live
spil.conf) run under it with reduced budgets.
"""
import json
import os
import random

from lib import harness
from lib.rec import Rec
from lib.workers import run_shards, run_one

LEVEL = "exploration"
RULE = ("G9: configurations derived from the demo one by a parameter vector (renamed keys, basetypes, type codes and leaf key; removed / inserted "
        "hierarchy levels; other file-name separators and fixed folders; other closed vocabularies and digit patterns; optional third basetype "
        "and third path configuration; constant-backed levels on / off; mapping styles plain / upper-case / one-to-one rotation whose sid-side "
        "values reuse path-side names). For each configuration the portable checks C01, C02, C03, C04, C05, C06, C07, C08 and C11 run unchanged "
        "in processes started with the generated package first on the python path. Non-trivial = the distinct non-trivial cases of the "
        "sub-checks, per configuration.")
ASSUME = ["the generated package follows the documented conventions by construction and is validated by the harness before judging "
          "(a failing validation is inconclusive, never a violation)",
          "known findings of the sub-checks (third-party '$' anchor) apply under every configuration"]
BUDGET = {"quick": 8, "thorough": 160}
SUBS = {
    "c01": {"n": 2500}, "c02": {"n": 1200}, "c03": {"n": 1500}, "c04": {"n": 2500},
    "c05": {"n": 1200, "order": "server_first", "pair": 0}, "c06": {"n": 2500}, "c07": {"n": 1500},
    "c08": {"universes": 8, "searches": 32, "brackets": False}, "c11": {"universes": 8, "searches": 30, "p_twins": 0.7},
    "order": {},
}


def run(snap, tier, seed, t0, replay):
    from lib import confgen
    if replay is not None:
        case = replay.get("case", replay)
        params = case["conf_params"]
        d = os.path.join(snap.root, "genconf_replay")
        confgen.emit(params, d)
        res = run_one(snap, "c20", {"sub": case["sub"], "sub_args": {"replay": case, "seed": seed}, "params": params},
                      snap.env(conf_first=d, hashseed=case.get("_hashseed", 0)), 1800)
        m = harness.merge([res])
        return harness.finish("C20", tier, seed, LEVEL, m, RULE, t0, ASSUME, replay_mode=True)
    rng = random.Random(seed * 7919 + 13)
    nconf = BUDGET[tier]
    args, envs = [], []
    params_list = []
    for k in range(nconf):
        variant = "identity" if k == 0 else None
        params = confgen.gen_params(rng, variant)
        if k >= 1:
            # stratification: every run covers the features the family is about, whatever the seed
            params["mapping_style"] = ["swap", "demo", "identity", "partial"][(k * 3) % 4]
            if k % 2:
                params["keys"]["ext"] = ["format", "suffix"][(k // 2) % 2]
            if k % 4 == 1:
                params["third_config"], params["third_config_own_mapping"] = True, True
                params["derived_configs"] = True      # ... written the documented way, on top of the main configuration module
            if k % 4 == 3:
                params["third_config"], params["third_config_narrow"] = True, True
            if k % 3 == 2:
                params["default_config"] = "server"
            if k % 5 == 2:
                params["twin_basetype"] = True
            if k % 5 == 4:
                params["third_basetype"] = True
                params["leaf_per_basetype"] = True
            params["explicit_root"] = (k % 6 != 5)
            if k % 8 == 3:
                params["kp_universal_last"] = True
            if k % 8 == 7:
                params["dotdot_root"] = True       # a root folder spelled with '..' is a root like any other
            if k % 8 == 6:
                # a closed vocabulary with 'x' and 'x_big' under the '_' separator (third-party limit, listed as known finding)
                params["prefix_vocab"], params["with_assettype"], params["sep"] = True, True, "_"
            if k % 4 == 2:
                params["keys"]["sequence"], params["keys"]["task"] = "s\u00e9quence", "t\u00e2che"      # non-ASCII key names
        params_list.append(params)
        for sub, sa in SUBS.items():
            d = os.path.join(snap.root, "genconf_%d_%s" % (k, sub))
            confgen.emit(params, d)
            sub_args = dict(sa, seed=seed * 1000 + k)
            if sub == "c11" and params.get("prefix_vocab"):
                sub_args["no_last"] = True      # (entities the known resolva limit hides change every '>' answer: not classifiable by mechanism)
            args.append({"sub": sub, "sub_args": sub_args, "params": params, "conf_index": k})
            envs.append(snap.env(conf_first=d))
    results = run_shards(snap, "c20", args, envs=envs, timeout=3300)
    m = harness.merge(results)
    c = m.counters
    floors = {"configurations": (nconf, 6),
              "sub-check runs judged": (c.get("sub_runs", 0), nconf * len(SUBS)),
              "configurations validated": (c.get("validated", 0), nconf * len(SUBS)),
              "renamed leaf key configurations": (sum(1 for p in params_list if p["keys"]["ext"] != "ext"), 1),
              "non-idempotent mapping configurations": (sum(1 for p in params_list if p["mapping_style"] == "swap"), 1 if nconf >= 6 else 0),
              "configurations with non-ASCII key names": (sum(1 for p in params_list if not p["keys"]["sequence"].isascii()), 1 if nconf >= 6 else 0),
              "configurations whose secondary path configurations derive from the main module": (sum(1 for p in params_list if p.get("derived_configs") and p.get("third_config_own_mapping")), 1 if nconf >= 6 else 0),
              "configurations with a basetype that names its own leaf key": (sum(1 for p in params_list if p.get("third_basetype") and p.get("leaf_per_basetype")), 1 if nconf >= 6 else 0),
              "configurations with a vocabulary value that extends another by the separator": (sum(1 for p in params_list if p.get("prefix_vocab")), 1 if nconf >= 8 else 0),
              "configurations whose root folder is spelled with '..'": (sum(1 for p in params_list if p.get("dotdot_root")), 1 if nconf >= 8 else 0),
              "partial mapping table configurations": (sum(1 for p in params_list if p["mapping_style"] == "partial"), 1 if nconf >= 6 else 0)}
    for sub in SUBS:
        floors["evaluations of %s" % sub] = (c.get("evals:" + sub, 0), nconf * (100 if sub != "order" else 2))
    return harness.finish("C20", tier, seed, LEVEL, m, RULE, t0, ASSUME, floors=floors,
                          extra_cov={"configurations": [{k: v for k, v in p.items() if k in ("keys", "bt_asset", "bt_shot", "sep", "mapping_style", "with_assettype", "with_step", "third_basetype", "third_config", "constants")} for p in params_list[:8]]})


def validate(params):
    """Harness-side validation of the generated configuration, in the worker. Returns list of problems."""
    problems = []
    try:
        from spil import conf
        from lib.refmodel import SidModel
        from lib.pathmodel import PathModel
        from lib import gen
        model = SidModel(conf)
        vocab = gen.Vocab(model)
        if json.loads(conf.GENERATED_PARAMS) != json.loads(json.dumps(params, sort_keys=True)):
            problems.append("generated package is not the loaded configuration")
        unusable = [t.name for t in model.templates if not vocab.usable(t)]
        if unusable:
            problems.append("templates with opaque patterns: %s" % unusable[:3])
        names = [t.name for t in model.templates]
        if len(set(names)) != len(names):
            problems.append("duplicate type names")
        rng = random.Random(5)
        for c in conf.path_configs:
            pm = PathModel(c)
            for n in pm.templates:
                if n not in model.by_name:
                    problems.append("path template %s has no sid type (%s)" % (n, c))
                    continue
                t = model.by_name[n]
                if set(pm.templates[n].keyset) != set(t.keys):
                    problems.append("path template %s keys %s != sid keys %s" % (n, sorted(pm.templates[n].keyset), t.keys))
                    continue
                for _ in range(3):
                    s = vocab.valid_string(t, rng, pool=["abc", "x1"], small=True)
                    if model.is_search_string(s):
                        continue
                    p = pm.render(n, t.fields(s))
                    if p is None:
                        continue      # (a configuration may know fewer values than the Sid configuration)
                    if pm.templates[n].parse(p) is None:
                        problems.append("reference cannot parse its own rendering for %s" % n)
                        break
            # one-to-one mappings
            for k, mp in pm.mapping.items():
                if len(set(mp.values())) != len(mp):
                    problems.append("mapping of %s is not one-to-one" % k)
        # mutually exclusive patterns per level: every valid string has exactly the types sharing its string by design
    except Exception as e:
        import traceback
        problems.append("validation raised: %s" % traceback.format_exc()[-600:])
    return problems


ORDER_CHILD = r"""
import json, sys
from spil import conf, Sid
from spil.sid.pathops.pathconfig import get_path_config
order = sys.argv[1].split(",")
for c in order:
    Sid(path="/nowhere", config=c)
out = {}
for c in sorted(conf.path_configs):
    pc = get_path_config(c)
    out[c] = sorted((k, v) for k, v in pc.path_templates.items())
print("RESULT" + json.dumps(out))
"""


def order_sub(args):
    """Fresh interpreters using the path configurations in different orders must end up with the same templates per configuration."""
    import subprocess
    import sys
    from spil import conf
    rec = Rec("C20")
    names = list(conf.path_configs)
    orders = [names, list(reversed(names))] + ([names[1:] + names[:1]] if len(names) > 2 else [])
    seen = {}
    for o in orders:
        rec.ev()
        p = subprocess.run([sys.executable, "-W", "ignore", "-c", ORDER_CHILD, ",".join(o)], stdout=subprocess.PIPE, stderr=subprocess.PIPE,
                           timeout=300, env=dict(os.environ))
        lines = [l for l in p.stdout.decode().splitlines() if l.startswith("RESULT")]
        if not lines:
            rec.inconclusive.append("order child failed: %s" % p.stderr.decode()[-300:])
            continue
        rec.count("orders_run")
        seen[",".join(o)] = json.loads(lines[0][6:])
    vals = list(seen.items())
    for o, v in vals[1:]:
        if v != vals[0][1]:
            diff = [c for c in v if v[c] != vals[0][1].get(c)]
            rec.violation("path_templates_depend_on_which_configuration_was_used_first", {"orders": [vals[0][0], o]},
                          "configurations whose templates differ: %s; e.g. %r vs %r" % (
                              diff, [t for t in v[diff[0]] if t not in vals[0][1][diff[0]]][:1], [t for t in vals[0][1][diff[0]] if t not in v[diff[0]]][:1]))
    if len(seen) > 1:
        rec.nt("orders:%d" % len(seen))
    return rec.result()


def worker(args):
    import importlib
    sub = args["sub"]
    params = args["params"]
    if sub == "order":
        res = order_sub(args)
        for v in res.get("unlisted", []):
            v["case"].update({"sub": "order", "conf_params": params})
            v["kind"] = "order:" + v["kind"]
        res["counters"] = dict({("order:%s" % k): v for k, v in res.get("counters", {}).items()}, sub_runs=1, validated=1)
        res["counters"]["evals:order"] = res.get("evaluations", 0)
        return res
    # the loaded (extrapolated) templates must be what the reference extrapolation of the package's raw templates gives
    try:
        import spil_sid_conf as raw
        from spil import conf
        from checks.c19 import ref_extrapolate
        exp, judged = ref_extrapolate(dict(raw.sid_templates), list(raw.to_extrapolate))
        if judged and [n for n, _t in exp] != list(conf.sid_templates):
            rec = Rec("C20")
            rec.ev()
            rec.violation("c19:loaded_types_differ_from_reference_extrapolation", {"sub": "c19", "conf_params": params},
                          "expected %r got %r" % ([n for n, _t in exp], list(conf.sid_templates)))
            return rec.result()
    except ImportError:
        pass
    probs = validate(params)
    if probs:
        rec = Rec("C20")
        rec.inconclusive.append("generated configuration invalid (%s): %s" % (sub, "; ".join(probs)[:600]))
        return rec.result()
    from lib import findings
    findings.EXTRA_PROPS = ["C20"]
    if params.get("prefix_vocab"):
        os.environ["VERIF_PREFIX_VOCAB_SEP"] = params.get("sep", "_")
    mod = importlib.import_module("checks." + sub)
    res = mod.worker(args["sub_args"])
    if "_failed" in res:
        return res
    tag = {"sub": sub, "conf_params": params}
    for v in res.get("unlisted", []):
        v["case"].update(tag)
        v["kind"] = sub + ":" + v["kind"]
        v["property"] = "C20"
    for vs in res.get("known", {}).values():
        for v in vs:
            v["case"].update(tag)
    cnt = res.setdefault("counters", {})
    cnt = {("%s:%s" % (sub, k)): v for k, v in cnt.items()}
    cnt["sub_runs"] = 1
    cnt["validated"] = 1
    cnt["evals:" + sub] = res.get("evaluations", 0)
    res["counters"] = cnt
    res["nontrivial"] = ["%s|%s" % (args.get("conf_index"), x) for x in res.get("nontrivial", [])][:20000]
    res["monitor"] = {("%s:%s" % (sub, k)): v for k, v in res.get("monitor", {}).items()}
    res.pop("pathmap", None)
    return res
