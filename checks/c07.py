"""C07 — a search expression unfolds to exactly the typed searches its syntax denotes."""
import random

from lib import driver
from lib.rec import Rec

LEVEL = "exploration"
RULE = ("G4: searches built from valid Sid strings of every configured type by replacing segments with '*', '>', comma lists, partial globs and "
        "aliases, collapsing spans into '**', appending 0..2 filters (existing, deeper, foreign, comma-valued, alias-valued, invalid, optional) "
        'plus malformed forms; every call of unfold_search in the process (M-unfold wrapper, all aliases re-bound) is compared as a set of uris '
        'with the independent R4 model (R1 typing, R3 query, alias / leaf / narrowing tables of the live configuration). After half of the '
        "'root/**' searches the plain star searches 'root/*', 'root/*/*', ... of every depth are asked (and judged). The hand-through tables "
        '(leaf keys, aliases, narrowing) are read from the configuration as written, not as loaded. Non-trivial = distinct search string whose '
        'R4 result is non-empty or MAY_RAISE.')
ASSUME = ["not judged (UNSPECIFIED, counted): whitespace in the search, empty alternatives, repeated / '~' / blank user filters, several '?', "
          "'**' not forming a whole segment; when R4 says MAY_RAISE a SpilException or a (typed, query-free) list are both accepted",
          "do_extrapolate=True is judged only for: no foreign exception, typed, query-free, duplicate-free, and containing every typed search "
          "of the plain result (documented: 'all intermediate types are included'; the statement does not define the added set)"]
BUDGET = {"quick": 16000, "thorough": 640000}
NSHARDS = 16


def shard_args(tier, seed):
    n = BUDGET[tier] // NSHARDS
    shards = [{"n": n, "seed": seed * 1000 + i} for i in range(NSHARDS)]
    if tier == "thorough":
        shards.append({"n": 0, "seed": seed, "suite": True})    # the repository's own tests under the M-unfold monitor
    return shards


def floors(m, tier):
    c = m.counters
    return {"M-unfold evaluations": (m.monitor.get("M-unfold", 0), BUDGET[tier] // 2),
            "judged OK-class searches": (c.get("r4:OK", 0), BUDGET[tier] // 3),
            "non-empty expected results": (c.get("expected_nonempty", 0), BUDGET[tier] // 6),
            "MAY_RAISE searches": (c.get("r4:MAY_RAISE", 0), 20),
            "searches with '**'": (c.get("op:dstar", 0), BUDGET[tier] // 10),
            "searches with filter": (c.get("op:filter", 0), BUDGET[tier] // 10),
            "searches with alias": (c.get("op:alias", 0), BUDGET[tier] // 40),
            "filters dropping a type": (c.get("filter_dropped_some", 0), 50)}


def run(snap, tier, seed, t0, replay):
    return driver.simple_run("C07", snap, tier, seed, t0, replay, LEVEL, RULE, ASSUME, shard_args, floors_fn=floors)


def judge(rec, model, s, flags, res, exc, SpilException):
    """One observed call of unfold_search(s, **flags)."""
    from lib import unfoldmodel
    rec.mon("M-unfold")
    case = {"search": s, "flags": flags}
    s_str = str(s)
    verdict = unfoldmodel.unfold(model, s_str)
    rec.count("r4:" + verdict[0])
    if exc is not None:
        if not isinstance(exc, SpilException):
            rec.violation("foreign_exception", case, repr(exc))
        elif verdict[0] == "OK":
            rec.violation("SpilException_but_search_is_well_formed", case, repr(exc))
        return
    # a list was returned
    uris = [x.uri for x in res]
    if len(set(uris)) != len(uris):
        rec.violation("duplicates", case, repr(uris))
    for x in res:
        if not x or "?" in str(x):
            rec.violation("untyped_or_unapplied_query_in_result", case, repr(x))
            return
        if not model.accepts(x.type, str(x)):
            rec.violation("result_not_conforming_to_its_type", case, repr(x))
    if flags.get("do_uniquify"):
        rec.unspec("do_uniquify")
        return
    if flags.get("do_extrapolate"):
        rec.count("extrapolate_judged")
        return
    if verdict[0] == "UNSPECIFIED":
        rec.unspec("r4:" + verdict[1])
        return
    if verdict[0] == "MAY_RAISE":
        return
    exp = verdict[1]
    if exp:
        rec.count("expected_nonempty")
    got = set(uris)
    if got != exp:
        rec.violation("unfold_set_differs", case, "missing=%r extra=%r" % (sorted(exp - got)[:6], sorted(got - exp)[:6]))
    return exp


def install(rec, model):
    from spil.sid.read import tools
    from spil import SpilException
    from lib import monitors

    def after(args, kwargs, res, exc, token):
        names = ["search_sid", "do_uniquify", "do_extrapolate"]
        a = dict(zip(names, args))
        a.update(kwargs)
        s = a.get("search_sid")
        flags = {k: bool(a.get(k)) for k in ("do_uniquify", "do_extrapolate") if a.get(k)}
        judge(rec, model, s if isinstance(s, str) else str(s), flags, res, exc, SpilException)

    monitors.wrap_function(tools, "unfold_search", after)


def extrapolate_check(rec, model, s, unfold_search, SpilException):
    case = {"search": s, "flags": {"do_extrapolate": True}}
    try:
        plain = unfold_search(s)
        ext = unfold_search(s, False, True)
    except SpilException:
        return
    except Exception:
        return  # recorded by the monitor
    pstr = {str(x) for x in plain}
    estr = {str(x) for x in ext}
    if not pstr <= estr:
        rec.violation("extrapolated_misses_plain_string", case, repr(sorted(pstr - estr)[:5]))
    # "if do_extrapolate is True, all intermediate types are INCLUDED in the result" (documented): the typed searches of the plain
    # result are still there, with their types
    puri = {x.uri for x in plain}
    euri = {x.uri for x in ext}
    rec.count("extrapolate_superset_judged")
    if not puri <= euri:
        rec.violation("extrapolated_loses_typed_searches", case, repr(sorted(puri - euri)[:5]))


def worker(args):
    from spil import conf, Sid, SpilException
    from spil.sid.read.tools import unfold_search as _u  # noqa (bound before wrapping: rebind test)
    from lib.refmodel import SidModel
    from lib import gen, searchgen
    from checks import c01, c04
    rec = Rec("C07")
    model = SidModel(conf)
    fin = c01.side_monitor(rec, model)
    install(rec, model)
    from spil.sid.read import tools
    unfold_search = tools.unfold_search
    vocab = gen.Vocab(model)
    rng = random.Random(args.get("seed", 0))
    if "replay" in args:
        c = args["replay"]
        rec.ev()
        fl = c.get("flags") or {}
        try:
            if c.get("msid"):
                Sid(c["s"])
            else:
                unfold_search(c["search"], bool(fl.get("do_uniquify")), bool(fl.get("do_extrapolate")))
                if fl.get("do_extrapolate"):
                    extrapolate_check(rec, model, c["search"], unfold_search, SpilException)
        except Exception:
            pass
        fin()
        return rec.result()
    usable = [t for t in model.templates if vocab.usable(t)]
    from lib import unfoldmodel
    if args.get("suite"):
        from lib import suite_shard
        suite_shard.run_repo_tests(rec)
        fin()
        return rec.result()
    for it in range(args["n"]):
        t = usable[it % len(usable)]
        s, info = searchgen.make_search(rng, model, vocab, t, small=rng.random() < 0.5)
        if it % 29 == 0 and t.nseg >= 2:
            # a fully CONCRETE path plus a filter that adds the next key with a search symbol (the filter makes it a search)
            segs = vocab.valid_segments(t, rng, pool=gen.SAFE_NAME_POOL, small=True)
            syms = vocab.search_symbols_at(t, t.nseg - 1)
            if syms and not model.is_search_string("/".join(segs[:-1])):
                s = "/".join(segs[:-1]) + "?%s=%s" % (t.keys[-1], rng.choice(syms))
                info = {"ops": ["concrete_plus_symbol_filter", "filter"]}
        rec.ev()
        for op in set(info["ops"]):
            rec.count("op:" + op)
        v = unfoldmodel.unfold(model, s)
        if v[0] == "MAY_RAISE" or (v[0] == "OK" and v[1]):
            rec.nt(s)
        if v[0] == "OK" and "filter" in info["ops"]:
            v0 = unfoldmodel.unfold(model, s.split("?")[0])
            if v0[0] == "OK" and len(v0[1]) > len(v[1]):
                rec.count("filter_dropped_some")
        try:
            if rng.random() < 0.1:
                unfold_search(Sid(s))
            else:
                unfold_search(s)
        except Exception:
            pass
        if s.endswith("/**") and "?" not in s and rng.random() < 0.5:
            # history: after 'root/**', the plain star searches 'root/*', 'root/*/*', ... of every depth the expansion went through
            # (each is judged by the monitor like any other call: what the expansion did must not have changed their answer)
            root = s[:-3]
            for k in range(1, model.max_len - len(root.split("/")) + 1):
                rec.count("star_search_after_dstar_of_same_root")
                try:
                    unfold_search(root + "/*" * k)
                except Exception:
                    pass
        if rng.random() < 0.15:
            extrapolate_check(rec, model, s, unfold_search, SpilException)
        if it % 1499 == 0:
            rec.sample({"search": s, "ops": info["ops"], "r4": v[0], "expected": sorted(v[1])[:6] if v[0] == "OK" else v[1]})
    fin()
    return rec.result()
