"""C19 — template extrapolation gives every level of every hierarchy one well-named type.

The oracle is a reference implementation of the statement attached as icontract postconditions on the REAL
spil.conf.util.extrapolate_templates / pattern_replacing, installed by an import hook right after that module
is executed, i.e. BEFORE the demo configuration is loaded through them; they stay on for the generated workload.
"""
import copy
import importlib.abc
import importlib.util
import random
import sys

from lib import driver
from lib.rec import Rec

LEVEL = "exploration"
RULE = ("G8 grammar: 1..4 basetypes, chains of 2..9 keys, shared prefixes between basetypes, explicit intermediate types at "
        "arbitrary levels (standard and non-standard names, any dict position), extrapolated types whose key name occurs in the "
        "basetype name (shot__shot, asset__asset ...), names listed for extrapolation that do not exist, random pattern selectors. "
        "The reference result is compared (ordered list of (type, template) pairs) by an icontract postcondition on the real "
        "function. Non-trivial = distinct configuration in which extrapolation adds at least one type (or, for pattern_replacing, "
        "at least one template is rewritten).")
ASSUME = ["extrapolated types whose name has no separator or more than one separator are executed but not judged (the statement's naming "
          "rule 'basetype + separator + last key' vs the documented 'replace the keytype' are not both defined there)",
          "icontract evaluates the postcondition on the real call's arguments and return value"]
BUDGET = {"quick": 24000, "thorough": 3200000}
NSHARDS = 16
SEP = "__"


def shard_args(tier, seed):
    n = BUDGET[tier] // NSHARDS
    return [{"n": n, "seed": seed * 1000 + i, "_no_spil": True} for i in range(NSHARDS)]


def floors(m, tier):
    return {"extrapolate postcondition evaluations": (m.monitor.get("post:extrapolate_templates", 0), BUDGET[tier] // 2),
            "pattern_replacing postcondition evaluations": (m.monitor.get("post:pattern_replacing", 0), BUDGET[tier] // 4),
            "contract evaluated during demo config load": (m.counters.get("evaluated_during_config_load", 0), NSHARDS),
            "configs with key name inside basetype": (m.counters.get("cfg:key_in_basetype", 0), 100),
            "configs with explicit intermediates": (m.counters.get("cfg:explicit_intermediate", 0), 100),
            "configs with two hierarchies in one basetype": (m.counters.get("cfg:two_hierarchies_one_basetype", 0), 100),
            "loader runs on generated configurations": (m.counters.get("loader_runs", 0), BUDGET[tier] // 20),
            "loader runs with a selector matching a generated type": (m.counters.get("loader_runs_with_selector_on_generated_type", 0), BUDGET[tier] // 200)}


def run(snap, tier, seed, t0, replay):
    def shard(tier_, seed_):
        return shard_args(tier_, seed_)
    return driver.simple_run("C19", snap, tier, seed, t0, replay, LEVEL, RULE, ASSUME, shard, floors_fn=floors,
                             envs_fn=None, replay_extra={"_no_spil": True})


# ------------------------------------------------------------------------------------- reference
def key_of(part):
    return part.split(":")[0].replace("{", "").replace("}", "")


def ref_extrapolate(templates, to_extrapolate):
    """Returns (ordered list of pairs, judged?)"""
    result = []
    names = set(templates.keys())
    owned = set(templates.values())
    judged = True
    for name, tpl in templates.items():
        result.append((name, tpl))
        if name in to_extrapolate:
            if name.count(SEP) != 1:
                judged = False
            basetype = name.split(SEP)[0]
            parts = tpl.split("/")
            for j in range(len(parts) - 1, 0, -1):
                prefix = "/".join(parts[:j])
                if prefix in owned:
                    continue
                new_name = basetype + SEP + key_of(parts[j - 1])
                if new_name in names:
                    continue
                result.append((new_name, prefix))
                names.add(new_name)
                owned.add(prefix)
    return result, judged


def ref_pattern_replacing(templates, key_patterns):
    out = {}
    for name, tpl in templates.items():
        for sel, repl in key_patterns.items():
            if sel in name:
                for find, rep in repl.items():
                    tpl = tpl.replace(find, rep)
        out[name] = tpl
    return out


class ContractBroken(Exception):
    pass


STATE = {"rec": None, "phase": "load", "last": None}


def extrapolation_matches_reference(sid_templates, to_extrapolate, result):
    rec = STATE["rec"]
    rec.mon("post:extrapolate_templates")
    if STATE["phase"] == "load":
        rec.count("evaluated_during_config_load")
    exp, judged = ref_extrapolate(dict(sid_templates), list(to_extrapolate))
    got = list(result.items())
    STATE["last"] = {"expected": exp, "got": got, "judged": judged}
    if not judged:
        rec.unspec("type_name_separators")
        # still decidable there: explicit types keep their template and relative order, and "nothing else is added" -
        # a generated template is a '/'-prefix of the template of a type that IS listed for extrapolation
        explicit = [(n, t) for n, t in got if n in sid_templates]
        if explicit != list(sid_templates.items()):
            return False
        listed = [t for n, t in sid_templates.items() if n in to_extrapolate]
        for n, t in got:
            if n not in sid_templates and not any(lt.startswith(t + "/") for lt in listed):
                STATE["last"]["note"] = "generated %r -> %r is no prefix of a listed type's template" % (n, t)
                return False
        rec.count("weak_clause_judged")
        return True
    if len(set(n for n, _ in got)) != len(got):
        return False
    return got == exp


def copy_templates(sid_templates):
    return dict(sid_templates)


def replacing_matches_reference(sid_templates, key_patterns, OLD):
    rec = STATE["rec"]
    rec.mon("post:pattern_replacing")
    exp = ref_pattern_replacing(OLD.before, key_patterns)
    STATE["last"] = {"expected": list(exp.items()), "got": list(sid_templates.items())}
    return list(sid_templates.items()) == list(exp.items())


def decorate(module):
    import icontract
    module.extrapolate_templates = icontract.ensure(
        extrapolation_matches_reference, error=ContractBroken)(module.extrapolate_templates)
    module.pattern_replacing = icontract.snapshot(copy_templates, name="before")(
        icontract.ensure(replacing_matches_reference, error=ContractBroken)(module.pattern_replacing))


class Hook(importlib.abc.MetaPathFinder):
    done = False

    def find_spec(self, name, path, target=None):
        if name != "spil.conf.util" or Hook.done:
            return None
        Hook.done = True
        spec = importlib.util.find_spec(name)
        loader = spec.loader
        orig = loader.exec_module

        def exec_module(module):
            orig(module)
            decorate(module)
        loader.exec_module = exec_module
        return spec


# ------------------------------------------------------------------------------------- generator G8
KEYS = ["project", "type", "cat", "asset", "shot", "sequence", "task", "version", "state", "ext", "node", "step", "name", "seq", "render", "pass"]
BASES = ["asset", "shot", "render", "project", "seq", "task"]
PATS = [None, None, None, "a", "s", "scenes", r"v\d\d\d", "(w|p)"]


def gen_config(rng):
    nb = rng.randint(1, 4)
    bases = rng.sample(BASES, nb)
    shared = rng.sample(KEYS, rng.randint(0, 3))
    templates = []
    flags = set()
    to_ex = []
    for b in bases:
        L = rng.randint(2, 9)
        keys = list(shared[:min(len(shared), L - 1)])
        pool = [k for k in KEYS if k not in keys]
        rng.shuffle(pool)
        if rng.random() < 0.5 and b in pool and len(keys) < L:
            # the basetype's own name as a key (shot__shot, asset__asset)
            pool.remove(b)
            pool.insert(rng.randrange(0, max(1, L - len(keys))), b)
        keys += pool[:L - len(keys)]
        parts = []
        for k in keys:
            p = rng.choice(PATS)
            parts.append("{%s}" % k if p is None else "{%s:%s}" % (k, p))
        # leaf type
        leaf_style = rng.random()
        if leaf_style < 0.6:
            leaf = b + SEP + keys[-1]
        elif leaf_style < 0.85:
            leaf = b + SEP + rng.choice(["file", "leaf", "movie_file"])
        elif leaf_style < 0.93:
            leaf = b
        else:
            leaf = b + SEP + "a" + SEP + keys[-1]
        mine = [(leaf, "/".join(parts))]
        # sibling leaf with the same keys (like movie_file)
        if rng.random() < 0.25:
            mine.append((b + SEP + "alt_" + keys[-1], "/".join(parts[:-1] + ["{%s:alt}" % keys[-1]])))
        # explicit intermediates
        for j in range(1, L):
            if rng.random() < 0.22:
                flags.add("explicit_intermediate")
                st = rng.random()
                if st < 0.6:
                    nm = b + SEP + keys[j - 1]
                elif st < 0.8:
                    nm = b + SEP + "x" + keys[j - 1]
                else:
                    nm = b if j <= 2 else b + SEP + keys[j - 1]
                mine.append((nm, "/".join(parts[:j])))
        if rng.random() < 0.3:
            head, tail = mine[:1], mine[1:]
            rng.shuffle(tail)
            mine = head + tail
        if rng.random() < 0.1:
            rng.shuffle(mine)
        for nm, tp in mine:
            if nm not in [n for n, _ in templates]:
                templates.append((nm, tp))
        # what to extrapolate
        r = rng.random()
        if r < 0.7:
            to_ex.append(leaf)
        if r > 0.5 and len(mine) > 1:
            to_ex.append(rng.choice(mine)[0])
        if any(k in b or b in k for k in keys):
            flags.add("key_in_basetype")
        if rng.random() < 0.2 and L >= 3:
            # a SECOND hierarchy of the same basetype using the same key names at other depths (regular / library assets ...)
            k2 = keys[:1] + keys[2:] + keys[1:2] if rng.random() < 0.5 else list(reversed(keys))
            parts2 = ["{%s:lib}" % k if i == 0 else "{%s}" % k for i, k in enumerate(k2)]
            leaf2 = b + SEP + "lib" + k2[-1]
            if leaf2 not in [n for n, _ in templates]:
                templates.append((leaf2, "/".join(parts2)))
                to_ex.append(leaf2)
                flags.add("two_hierarchies_one_basetype")
    if rng.random() < 0.1:
        to_ex.append("no_such__type")
    if rng.random() < 0.15:
        rng.shuffle(templates)
    return dict(templates), to_ex, flags


def gen_patterns(rng, templates):
    sels = ["__", "t", "a", "zz"] + [n[:rng.randint(1, len(n))] for n in rng.sample(list(templates), min(2, len(templates)))] + \
           [n.split(SEP)[0] + SEP for n in templates][:2]
    # selectors that (only) match GENERATED type names: the full name, or the separator + key
    gen_names = [n for n, _ in ref_extrapolate(dict(templates), [n for n in templates])[0] if n not in templates]
    if gen_names:
        g = rng.choice(gen_names)
        sels += [g, SEP + g.split(SEP)[-1]]
    kp = {}
    for s in rng.sample(sels, rng.randint(1, min(4, len(sels)))):
        repl = {}
        for _ in range(rng.randint(1, 3)):
            k = rng.choice(KEYS)
            find = rng.choice(["{%s}" % k, "{%s:a}" % k, "{%s:scenes}" % k])
            repl[find] = "{%s:(%s|\\*)}" % (k, rng.choice(["x|y", "a", r"v\d\d\d"]))
        kp[s] = repl
    return kp


LOADER = {"code": None, "origin": None}


def loader_one(rec, templates, to_ex, kp):
    """The LOADER (spil/conf/sid_conf_load.py) run on a generated 'spil_sid_conf' module: what it leaves in sid_templates must be
    the reference pipeline - extrapolate the configured templates, THEN rewrite patterns (selectors see the generated type names)."""
    import types
    if LOADER["code"] is None:
        spec = importlib.util.find_spec("spil.conf.sid_conf_load")
        LOADER["origin"] = spec.origin
        LOADER["code"] = compile(open(spec.origin).read(), spec.origin, "exec")
    case = {"templates": list(templates.items()), "to_extrapolate": to_ex, "key_patterns": kp, "loader": True}
    pairs, judged = ref_extrapolate(dict(templates), list(to_ex))
    if not judged or len({n for n, _ in pairs}) != len(pairs):
        return
    exp = list(ref_pattern_replacing(dict(pairs), kp).items())
    mod = types.ModuleType("spil_sid_conf")
    mod.sid_templates = dict(templates)
    mod.to_extrapolate = list(to_ex)
    mod.key_patterns = copy.deepcopy(kp)
    old = sys.modules.get("spil_sid_conf")
    sys.modules["spil_sid_conf"] = mod
    ns = {"__name__": "spil.conf.sid_conf_load__verif"}
    err = None
    try:
        exec(LOADER["code"], ns)
    except ContractBroken:
        return            # (reported by one() for the same input)
    except Exception as e:
        err = e           # typically the resolver refusing a generated pattern: the templates are in place by then
    finally:
        if old is not None:
            sys.modules["spil_sid_conf"] = old
        else:
            sys.modules.pop("spil_sid_conf", None)
    got = ns.get("sid_templates")
    if not isinstance(got, dict) or (err is not None and list(got.items()) == list(templates.items())):
        rec.count("loader_runs_without_result")
        return
    rec.count("loader_runs")
    if any(n not in templates for n, _ in pairs) and any(sel in n and n not in templates for sel in kp for n, _ in pairs):
        rec.count("loader_runs_with_selector_on_generated_type")
    if list(got.items()) != exp:
        rec.violation("loaded_templates_differ_from_reference_pipeline", case, "expected=%r got=%r" % (exp[:12], list(got.items())[:12]))


def one(rec, util, templates, to_ex, kp, flags):
    case = {"templates": list(templates.items()), "to_extrapolate": to_ex, "key_patterns": kp}
    try:
        res = util.extrapolate_templates(dict(templates), list(to_ex))
    except ContractBroken:
        last = STATE["last"]
        rec.violation("extrapolation_differs_from_reference", case,
                      "expected=%r got=%r" % (last["expected"], last["got"]))
        return
    except Exception as e:
        rec.violation("extrapolate_raised", case, repr(e))
        return
    if len(res) > len(templates):
        rec.nt(repr(case["templates"]) + repr(to_ex))
    # input must not be modified
    target = dict(res)
    try:
        util.pattern_replacing(target, kp)
    except ContractBroken:
        last = STATE["last"]
        rec.violation("pattern_replacing_differs_from_reference", case, "expected=%r got=%r" % (last["expected"], last["got"]))
        return
    except Exception as e:
        rec.violation("pattern_replacing_raised", case, repr(e))
        return
    if target != dict(res):
        rec.nt("PR" + repr(list(res.items())) + repr(kp))


def worker(args):
    rec = Rec("C19")
    STATE["rec"] = rec
    sys.meta_path.insert(0, Hook())
    try:
        import io
        import spil  # noqa  -- demo configuration loads THROUGH the contracts
        from spil.conf import util
    except Exception as e:
        import traceback
        last = STATE.get("last")
        rec.violation("contract_fired_while_loading_demo_configuration", {"phase": "load"},
                      "%s last=%r" % (traceback.format_exc()[-800:], last))
        rec.ev()
        return rec.result()
    STATE["phase"] = "workload"
    if not hasattr(util.extrapolate_templates, "__wrapped__"):
        rec.inconclusive.append("contracts were not installed on spil.conf.util")
        return rec.result()
    rng = random.Random(args.get("seed", 0))
    if "replay" in args:
        c = args["replay"]
        rec.ev()
        if c.get("loader"):
            loader_one(rec, dict(c["templates"]), c["to_extrapolate"], c["key_patterns"])
        elif c.get("phase") != "load":
            one(rec, util, dict(c["templates"]), c["to_extrapolate"], c["key_patterns"], set())
        return rec.result()
    for it in range(args["n"]):
        templates, to_ex, flags = gen_config(rng)
        kp = gen_patterns(rng, templates)
        rec.ev()
        for f in flags:
            rec.count("cfg:" + f)
        one(rec, util, templates, to_ex, kp, flags)
        if it % 6 == 0:
            loader_one(rec, templates, to_ex, kp)
        if it % 2999 == 0:
            rec.sample({"templates": templates, "to_extrapolate": to_ex, "key_patterns": kp})
    return rec.result()
