"""C11 — all Finders give the same answer for the same data."""
from lib import driver
from lib.rec import Rec

LEVEL = "exploration"
RULE = ("G5 universes materialised (by an own renderer, not spil's) as a list, a local tree and a server tree; G4 searches of the C07 / C09 "
        "families built from entities of the universe. For every search: FindInPaths(local) == FindInPaths(server) == FindInList (path-backed "
        "types), FindInAll == R7 (path-backed levels from the tree, constant-backed levels from the constants of the live configuration, "
        "filtered by the searched value), as_sid results typed like the search; then junk (sidecars, wrong separators, desynchronised "
        "duplicate fields, stray folders, wrong depth; each checked by R8 to conform to no template) is planted and every search re-run: "
        "no result may change and nothing may raise. Non-trivial = distinct (universe, search) with a non-empty result on some finder.")
ASSUME = ["unfolded forms are the observed result of the real unfold_search; searches for which it raises SpilException are not judged",
          "FindInAll vs R7 is judged for searches without '>' (C09 judges '>'); constant-backed levels under a concrete parent are answered "
          "from constants without an existence check (statement silent) and are modelled that way"]
BUDGET = {"quick": (320, 40), "thorough": (4800, 60)}
NSHARDS = 16


def shard_args(tier, seed):
    u, k = BUDGET[tier]
    return [{"universes": max(1, u // NSHARDS), "searches": k, "seed": seed * 1000 + i, "dataconf_variant": i % 3 == 1} for i in range(NSHARDS)]


def envs(snap, shard_args_list):
    # every third shard runs under a second data configuration (Finders / Getters created once per path configuration, dispatching on 'config')
    from lib import dataconf_variant
    return dataconf_variant.envs(snap, shard_args_list)


def floors(m, tier):
    u, k = BUDGET[tier]
    c = m.counters
    return {"searches judged": (c.get("searches", 0), u * k // 2),
            "non-empty results": (c.get("nonempty", 0), u * k // 6),
            "junk re-runs": (c.get("junk_reruns", 0), u * k // 3),
            "junk items planted": (c.get("junk_planted", 0), u * 4),
            "desynchronised junk planted": (c.get("junk_desync", 0), u // 4),
            "FindInAll vs R7": (c.get("all_vs_r7", 0), u * k // 4),
            "constant-backed answers": (c.get("all_constant_levels", 0), u),
            "searches under the second data configuration": (c.get("searches_under_second_data_configuration", 0), u * k // 10),
            "FindInAll(non-default config) vs R7": (c.get("all_config_vs_r7", 0), u * k // 20)}


def run(snap, tier, seed, t0, replay):
    return driver.simple_run("C11", snap, tier, seed, t0, replay, LEVEL, RULE, ASSUME, shard_args, floors_fn=floors, envs_fn=envs)


def compare_all(rec, lab, s, case, junk_phase=False, baseline=None):
    """Runs s on every finder. Returns dict name -> set(strings) (or None when not judged)."""
    from lib.findlab import run_find, filter_is_unspecified
    from spil import SpilException
    if filter_is_unspecified(s):
        rec.unspec("url_metachar_in_filter")
        return None
    if ">" in s:
        from lib.findlab import last_index, observed_forms
        try:
            kind, _i = last_index(observed_forms(s))
        except Exception:
            kind = "mixed"
        if kind == "mixed":
            rec.unspec("last_symbol_not_at_one_position")
            return None
    res = {}
    for name, f in lab.finders.items():
        got, exc = run_find(f, s, as_sid=False)
        if exc is not None:
            if isinstance(exc, SpilException) and not junk_phase:
                rec.count("SpilException")
                return None
            rec.violation("finder_raised" + ("_with_junk" if junk_phase else ""), dict(case, finder=name), repr(exc))
            return None
        if len(set(got)) != len(got):
            rec.violation("duplicates", dict(case, finder=name), repr(got[:10]))
        res[name] = set(got)
    rec.count("searches" if not junk_phase else "junk_reruns")
    if junk_phase:
        for name in res:
            if baseline is not None and res[name] != baseline[name]:
                rec.violation("junk_changed_result", dict(case, finder=name),
                              "gone=%r new=%r" % (sorted(baseline[name] - res[name])[:5], sorted(res[name] - baseline[name])[:5]))
        return res
    if any(res.values()):
        rec.count("nonempty")
        rec.nt(case["uid"] + "|" + s)
    paths = [n for n in res if n.startswith("paths:")]
    for a in paths[1:]:
        # (configurations answer identically when they hold the same entities)
        if lab.exists[a.split(":", 1)[1]] == lab.exists[paths[0].split(":", 1)[1]] and res[a] != res[paths[0]]:
            rec.violation("configs_disagree", dict(case, finder=a), "%s only=%r %s only=%r" % (
                paths[0], sorted(res[paths[0]] - res[a])[:5], a, sorted(res[a] - res[paths[0]])[:5]))
    dflt = "paths:" + lab.default_config
    # typed vs textual expectation (entries of a type other than the one searched are not results of a path search)
    from lib.refmodel import gmatch
    forms = [(t, f.replace(">", "*")) for t, f in lab.allmodel.unfold(s)]
    ex = lab.exists[lab.default_config]
    e_text = {e for e in ex if any(gmatch(f, e) for _t, f in forms)}
    e_typed = {e for e in ex if any(gmatch(f, e) and lab.model.natural(e).name == t for t, f in forms)}
    if ">" not in s:
        for a in paths:
            ex_a = lab.exists[a.split(":", 1)[1]]
            e_typed_a = {e for e in ex_a if any(gmatch(f, e) and lab.model.natural(e).name == t for t, f in forms)}
            if res[a] != e_typed_a:
                rec.violation("paths_vs_expected", dict(case, finder=a), "missing=%r extra=%r" % (
                    sorted(e_typed_a - res[a])[:5], sorted(res[a] - e_typed_a)[:5]))
        if res["list"] != e_text:
            rec.violation("list_vs_expected", case, "missing=%r extra=%r" % (sorted(e_text - res["list"])[:5], sorted(res["list"] - e_text)[:5]))
    if e_text == e_typed:
        if res["list"] != res[dflt]:
            rec.violation("list_vs_paths", case, "list only=%r paths only=%r" % (
                sorted(res["list"] - res[dflt])[:5], sorted(res[dflt] - res["list"])[:5]))
    else:
        rec.unspec("textual_match_of_other_type")
    if ">" not in s:
        exp = lab.allmodel.ans_all(s)
        if exp is not None:
            rec.count("all_vs_r7")
            if exp - res[dflt]:
                rec.count("all_constant_levels")
            if res["all"] != exp:
                rec.violation("FindInAll_vs_R7", case, "missing=%r extra=%r" % (sorted(exp - res["all"])[:5], sorted(res["all"] - exp)[:5]))
        for c2, am in lab.allmodels.items():
            exp = am.ans_all(s)
            if exp is not None:
                rec.count("all_config_vs_r7")
                if res["all:" + c2] != exp:
                    rec.violation("FindInAll_config_vs_R7", dict(case, finder="all:" + c2), "missing=%r extra=%r" % (
                        sorted(exp - res["all:" + c2])[:5], sorted(res["all:" + c2] - exp)[:5]))
    if lab.dataconf_variant:
        rec.count("searches_under_second_data_configuration")
    return res


def worker(args):
    from lib.findlab import Lab, run_find
    rec = Rec("C11")
    lab = Lab(args.get("seed", 0))
    lab.p_twins = args.get("p_twins")
    rng = lab.rng
    if "replay" in args:
        c = args["replay"]
        rec.ev()
        lab.new_universe(ents=c["ents"], names=c.get("names"), only_default=c.get("only_default"))
        base = compare_all(rec, lab, c["search"], dict(c))
        if c.get("junk_seed") is not None:
            import random
            lab.planted = lab.trees.plant_junk(random.Random(c["junk_seed"]), lab.ents)
            compare_all(rec, lab, c["search"], dict(c), junk_phase=True, baseline=base)
        return rec.result()
    for u in range(args["universes"]):
        ents = lab.new_universe()
        uid = "%s-%d" % (args.get("seed"), u)
        searches = []
        for k in range(args["searches"]):
            s, info = lab.search(allow_last=(rng.random() < 0.25) and not args.get("no_last"))
            searches.append(s)
        baselines = {}
        for s in searches:
            rec.ev()
            case = {"search": s, "ents": ents, "names": lab.names, "only_default": lab.only_default, "uid": uid,
                    "dataconf_variant": lab.dataconf_variant}
            baselines[s] = compare_all(rec, lab, s, case)
            # as_sid: results typed, same strings
            if rng.random() < 0.15 and baselines[s] is not None:
                for name, f in lab.finders.items():
                    uris, exc = run_find(f, s, as_sid=True)
                    if exc is None and {x.split(":", 1)[-1] for x in uris} != baselines[s][name]:
                        rec.violation("as_sid_differs", dict(case, finder=name), repr(sorted(uris)[:5]))
        # junk phase
        import random
        junk_seed = rng.randrange(10 ** 9)
        planted = lab.trees.plant_junk(random.Random(junk_seed), ents)
        rec.count("junk_planted", len(planted))
        rec.count("junk_desync", lab.trees.planted_desync)
        for s in searches:
            if baselines[s] is None:
                continue
            case = {"search": s, "ents": ents, "names": lab.names, "only_default": lab.only_default, "uid": uid, "junk_seed": junk_seed,
                    "dataconf_variant": lab.dataconf_variant}
            compare_all(rec, lab, s, case, junk_phase=True, baseline=baselines[s])
        if u == 0:
            root = lab.trees.pms[lab.default_config].root
            rec.sample({"entities": ents[:5], "n_entities": len(ents), "search": searches[0],
                        "result": sorted(baselines[searches[0]]["all"])[:5] if baselines[searches[0]] else None,
                        "junk": [p[len(root):] for p in planted[:6]]})
    lab.trees.reset()
    return rec.result()
