"""C04 — updating a Sid by query or get_with is all-or-nothing and never guesses."""
import random

from lib import driver
from lib.rec import Rec
from lib import refmodel, gen

LEVEL = "exploration"
RULE = ("G2 typed Sids x G3 queries / keyword overlays of 1..3 pairs (existing, deeper, foreign keys; '~' optional, invalid, "
        "search values; None). Each Sid(s?q), get_with(query=q), get_with(**kw), get_with(key=,value=) result is judged "
        "against R3 (overlay with the '~' rule) + R2 (types whose key set equals the overlay's and whose template accepts "
        "its rendering): result must be exactly 'applied' or exactly 'refused', and the right one. apply_query itself is "
        "wrapped (M-query) so internal calls are judged too. Non-trivial = distinct (uri, query) whose overlay differs from "
        "the old fields.")
ASSUME = ["not judged (counted unspecified): repeated keys, inner or doubled '~', blank values, URL metacharacters, "
          "(a Sid is a search when its string OR the applied query carries a search symbol)",
          "field ORDER of the result is not part of C04 (C03 checks navigation of query-built Sids)"]
BUDGET = {"quick": 40000, "thorough": 2400000}
NSHARDS = 16


def shard_args(tier, seed):
    n = BUDGET[tier] // NSHARDS
    shards = [{"n": n, "seed": seed * 1000 + i} for i in range(NSHARDS)]
    if tier == "thorough":
        shards.append({"n": 0, "seed": seed, "suite": True})    # the repository's own tests under the M-query / M-sid monitors
    return shards


def floors(m, tier):
    c = m.counters
    return {"query cases judged": (c.get("judged_query", 0), BUDGET[tier] // 4),
            "kw cases judged": (c.get("judged_kw", 0), BUDGET[tier] // 8),
            "branch one type": (c.get("branch:one", 0), 200),
            "branch no type": (c.get("branch:none", 0), 200),
            "branch several incl. old": (c.get("branch:several_with_old", 0), 50),
            "branch several without old, search": (c.get("branch:several_without_old_search", 0), 20),
            "observed applied": (c.get("obs:applied", 0), 200),
            "observed refused": (c.get("obs:refused", 0), 200),
            "M-query evaluations": (m.monitor.get("M-query", 0), BUDGET[tier] // 4),
            "'?' separated queries": (c.get("question_mark_separator", 0), 100),
            "queries with a leading / trailing separator": (c.get("leading_or_trailing_separator", 0), 100),
            "queries with more than 10 pairs": (c.get("long_queries", 0), 100),
            "queries chained on a refused query": (c.get("chained_on_refused", 0), 100)}


def run(snap, tier, seed, t0, replay):
    return driver.simple_run("C04", snap, tier, seed, t0, replay, LEVEL, RULE, ASSUME, shard_args, floors_fn=floors)


BAD_FLAGS = {"repeated_key", "inner_tilde", "blank_value", "url_meta", "no_equals", "empty_chunk", "bare_tilde"}


def judge_query(rec, model, old_type, old_fields, old_string, q, r_type, r_fields, r_string, case, where):
    """r_*: observed result. Returns nothing; records verdicts."""
    pairs, flags = refmodel.parse_query(q)
    ov, f2 = refmodel.overlay(old_fields, pairs)
    flags |= f2
    if flags & BAD_FLAGS or any(("/" in v or "\n" in v or "\r" in v) for v in ov.values()):
        rec.unspec("query_form")
        return
    F = model.types_of(ov)
    applied = (r_fields == ov and "?" not in r_string)
    refused = (r_type == old_type and r_fields == old_fields and r_string == old_string + "?" + q)
    search_old = model.is_search_string(old_string)
    search_new = any(model.is_search_string(v) for v in ov.values())
    if len(F) == 0:
        br = "none"
    elif len(F) == 1:
        br = "one"
    elif old_type in F:
        br = "several_with_old"
    elif search_old or search_new:
        br = "several_without_old_search"       # the Sid being built ("string?query") carries a search symbol
    else:
        br = "several_without_old_nonsearch"
    rec.count("branch:" + br)
    rec.count("judged_" + where)
    if ov != old_fields:
        rec.nt(case.get("s", "") + "?" + q)

    def bad(kind, detail):
        c = dict(case)
        c["q"] = q
        rec.violation(kind, c, "%s | old=%s:%s result=%s:%s fields=%r overlay=%r fits=%r" % (
            detail, old_type, old_string, r_type, r_string, r_fields, ov, F))

    if applied and refused:
        # only possible when nothing changed and no '?'... cannot be both since refused string has '?'
        pass
    if not applied and not refused:
        bad("neither_applied_nor_refused", "")
        return
    if applied:
        rec.count("obs:applied")
        if not F:
            bad("applied_but_no_type_fits", "")
            return
        if r_type not in F:
            bad("applied_with_unfitting_type", "")
        elif old_type in F and r_type != old_type:
            bad("type_changed_although_old_fits", "")
        elif br == "several_without_old_nonsearch":
            bad("guessed_type_for_non_search", "")
        try:
            canon = model.render(r_type, ov)
            if r_string != canon:
                bad("applied_string_not_canonical", "canon=%r" % canon)
        except KeyError:
            pass
    else:
        rec.count("obs:refused")
        if br == "one":
            bad("refused_although_one_type_fits", "")
        elif br == "several_with_old":
            bad("refused_although_old_type_fits", "")
        elif br == "several_without_old_search":
            bad("refused_for_search_with_several_types", "")


def judge_kw(rec, model, x, kw, r, case):
    ov = dict(x.fields)
    for k, v in kw.items():
        if v is None:
            ov.pop(k, None)
        else:
            ov[k] = v
    rec.count("judged_kw")
    rec.nt(x.uri + "|kw|" + repr(sorted(kw.items(), key=lambda i: i[0])))
    c = dict(case)
    c["kw"] = kw
    if r:
        rec.count("kw:typed")
        if r.fields != ov:
            rec.violation("get_with_typed_with_other_fields", c, "result=%r fields=%r overlay=%r" % (r.uri, r.fields, ov))
        elif "?" in str(r):
            rec.violation("get_with_dirty_string", c, repr(r))
    else:
        rec.count("kw:untyped")
        if all(isinstance(v, str) and "/" not in v and "\n" not in v and "\r" not in v for v in ov.values()) and ov:
            F = model.types_of(ov)
            if F:
                rec.violation("get_with_untyped_although_type_fits", c, "overlay=%r fits=%r result=%r" % (ov, F, r))


def install_mquery(rec, model):
    from spil.sid.core import query_helper as qh
    from lib import monitors

    def after(args, kwargs, res, exc, token):
        rec.mon("M-query")
        names = ["string", "query", "type", "fields"]
        a = dict(zip(names, args))
        a.update(kwargs)
        q = a.get("query")
        case = {"s": "%s:%s" % (a.get("type"), a.get("string")), "where": "apply_query"}
        if exc is not None:
            if a.get("type") or not a.get("fields"):
                rec.violation("apply_query_raised", dict(case, q=q), repr(exc))
            return
        if not q:
            return
        judge_query(rec, model, a.get("type") or "", dict(a.get("fields") or {}), a.get("string") or "", q,
                    res[1] or "", dict(res[2] or {}), res[0], case, "apply_query")

    monitors.wrap_function(qh, "apply_query", after)


def gen_pairs(rng, model, vocab, t, x_fields, for_kw=False):
    keys = list(x_fields)
    longer = [u for u in model.templates if u.nseg > t.nseg and u.name.split(model.sep)[0] == t.name.split(model.sep)[0] and vocab.usable(u)]
    other = [u for u in model.templates if u.name.split(model.sep)[0] != t.name.split(model.sep)[0] and vocab.usable(u)]
    n = rng.choice([1, 1, 2, 2, 3])
    pairs = []
    for _ in range(n):
        r = rng.random()
        nxt = [u for u in longer if u.nseg == t.nseg + 1 and vocab.search_symbols_at(u, t.nseg)]
        if nxt and rng.random() < 0.12:    # next-level key with a search symbol (may fit several sibling types)
            u = rng.choice(nxt)
            k, v = u.keys[t.nseg], rng.choice(vocab.search_symbols_at(u, t.nseg))
            pairs.append((k, v))
            continue
        if r < 0.35:       # existing key, valid other value
            i = rng.randrange(len(keys))
            k, v = keys[i], vocab.value(t, i, rng)
        elif r < 0.55 and longer:   # deeper key(s)
            u = rng.choice(longer)
            i = rng.randrange(t.nseg, u.nseg) if rng.random() < 0.5 else t.nseg
            i = min(i, u.nseg - 1)
            k, v = u.keys[i], vocab.value(u, i, rng)
        elif r < 0.65:     # foreign key
            if other and rng.random() < 0.6:
                u = rng.choice(other)
                i = rng.randrange(u.nseg)
                k, v = u.keys[i], vocab.value(u, i, rng)
            else:
                k, v = rng.choice(["foo", "Project", "ext ", ""]) or "foo", "bar"
        elif r < 0.75:     # invalid value on existing key
            k, v = rng.choice(keys), rng.choice(["fuzz", "v1", "zz", "A", "sq1", "hamlet2", "w p"])
        elif r < 0.88:     # search value
            cand = [(u, i) for u in ([t] + longer[:3]) for i in range(u.nseg) if vocab.search_symbols_at(u, i)]
            u, i = rng.choice(cand)
            k, v = u.keys[i], rng.choice(vocab.search_symbols_at(u, i))
        else:
            i = rng.randrange(len(keys))
            k, v = keys[i], vocab.value(t, i, rng)
        if not for_kw and rng.random() < 0.06 and model.alias and longer:
            # an extension alias as value of the leaf key (the search unfolders rewrite such queries: must not leak into Sid())
            lk = model.leaf_keys.get(model.basetype(t.name))
            if lk:
                k, v = lk, rng.choice(sorted(model.alias))
        if not for_kw and v and rng.random() < 0.04:
            # a ':' inside a value of an open key (namespaced names)
            cand = [(u, i) for u in [t] + longer[:4] for i in range(u.nseg) if vocab.info[u.name][i]["open"]]
            if cand:
                u, i = rng.choice(cand)
                k, v = u.keys[i], rng.choice(["ns:", "oph~", "a~b~"]) + rng.choice(gen.SAFE_NAME_POOL)
        if for_kw:
            if rng.random() < 0.2:
                v = None
                if rng.random() < 0.5 and longer:
                    k = rng.choice(rng.choice(longer).keys)   # possibly absent key
        else:
            if rng.random() < 0.05:
                v = ""            # 'k=': an empty value is a value (all-or-nothing applies to it as to any other)
            elif rng.random() < 0.25:
                v = "~" + v
        pairs.append((k, v))
    return pairs


def one_case(rec, model, vocab, Sid, rng, t, s, pairs_q, pairs_kw, mode):
    x = Sid(s)
    if not x:
        return
    case = {"s": s, "mode": mode}
    if mode in ("string", "get_with_query", "plain_string"):
        sepq = "?" if (len(pairs_q) > 1 and len(s) % 5 == 0) else "&"      # '?' is a documented alternative to '&'
        q = sepq.join("%s=%s" % (k, v) for k, v in pairs_q)
        if sepq == "?":
            rec.count("question_mark_separator")
        if pairs_q and len(s + q) % 11 == 0:
            # a long query: more pairs than any template has keys (unknown keys: all-or-nothing, so refused - never an error)
            q = q + "&" + "&".join("zk%d=v%d" % (i, i) for i in range(8 + len(q) % 5))
            rec.count("long_queries")
        if pairs_q and len(s + q) % 9 == 0:
            # "optionally leading or trailing ? or & are ignored" (documented)
            q = q + "&?"[len(q) % 2] if len(q) % 3 else "&?"[len(q) % 2] + q
            rec.count("leading_or_trailing_separator")
        case["q"] = q
        if mode == "plain_string" and (":" in s or Sid(str(x)).type != x.type):
            mode = "string"
        if len(q) % 7 == 0:
            # history: the same query text went through the search unfolders before (they parse and rewrite queries)
            try:
                from spil.sid.read.tools import unfold_search
                unfold_search(str(x) + "?" + q)
                rec.count("query_seen_by_unfolders_before")
            except Exception:
                pass
        try:
            if mode == "plain_string":
                r = Sid(str(x) + "?" + q)
                rec.count("plain_string_mode")
            else:
                r = Sid(x.uri + "?" + q) if mode == "string" else x.get_with(query=q)
        except Exception as e:
            rec.violation("query_raised", case, repr(e))
            return
        judge_query(rec, model, x.type, x.fields, str(x), q, r.type, r.fields, str(r), case, "query")
        if "?" in str(r) and len(pairs_q) >= 1:
            # chaining a second query onto a Sid whose first query was refused: the whole tail is ONE query
            free = [k for k in x.fields if k not in dict(pairs_q)]
            if not free:
                return
            k2 = free[len(s) % len(free)]
            q2 = "%s=%s" % (k2, x.fields[k2])
            try:
                r2 = r.get_with(query=q2)
                rec.count("chained_on_refused")
                judge_query(rec, model, x.type, x.fields, str(x), q + "?" + q2, r2.type, r2.fields, str(r2), dict(case, chained=q2), "query")
            except Exception as e:
                rec.violation("query_raised", dict(case, chained=q2), repr(e))
    else:
        kw = dict(pairs_kw)
        try:
            if mode == "kw_keyvalue" and len(kw) >= 1:
                k0 = next(iter(kw))
                rest = {k: v for k, v in kw.items() if k != k0}
                r = x.get_with(key=k0, value=kw[k0], **rest)
            else:
                r = x.get_with(**kw)
        except Exception as e:
            rec.violation("get_with_raised", dict(case, kw=kw), repr(e))
            return
        judge_kw(rec, model, x, kw, r, case)
        # the original is untouched
        if Sid(s).fields != x.fields or str(x) != (s.split(":", 1)[1] if ":" in s else s):
            rec.violation("original_changed", dict(case, kw=kw), repr(x))


def worker(args):
    from spil import conf, Sid
    from lib.refmodel import SidModel
    from lib import gen
    from checks import c01
    rec = Rec("C04")
    model = SidModel(conf)
    fin = c01.side_monitor(rec, model)
    install_mquery(rec, model)
    vocab = gen.Vocab(model)
    rng = random.Random(args.get("seed", 0))
    if "replay" in args:
        c = args["replay"]
        rec.ev()
        if c.get("where") == "apply_query" or c.get("msid"):
            try:
                Sid(c["s"] + ("?" + c["q"] if c.get("q") else ""))
            except Exception:
                pass
        else:
            t = model.by_name.get(Sid(c["s"]).type)
            pq = [tuple(p.split("=", 1)) for p in c.get("q", "").split("&") if "=" in p]
            one_case(rec, model, vocab, Sid, rng, t, c["s"], pq, list((c.get("kw") or {}).items()), c.get("mode", "string"))
        fin()
        return rec.result()
    usable = [t for t in model.templates if vocab.usable(t)]
    if args.get("suite"):
        from lib import suite_shard
        suite_shard.run_repo_tests(rec)
        fin()
        return rec.result()
    # open-level values of the Sids being updated: ordinary names, plus braces (str.format syntax), non-NFC text, an EMPTY value
    C04_POOL = gen.SAFE_NAME_POOL + ["{x}", "{}", "a}b", "{0}", "", "cafe\u0301"]
    for it in range(args["n"]):
        t0 = usable[it % len(usable)]
        if rng.random() < 0.5:
            s = vocab.valid_string(t0, rng, pool=C04_POOL)
        else:
            s, _ = vocab.search_string(t0, rng, pool=C04_POOL, p_sym=rng.choice([0.2, 0.6, 1.0]))
        x = Sid(s)
        if not x:
            continue
        t = model.by_name[x.type]
        if rng.random() < 0.1:
            ts = model.all_types(s)
            t = rng.choice(ts)
            s = t.name + ":" + s
            x = Sid(s)
        mode = rng.choice(["string", "plain_string", "get_with_query", "kw", "kw", "kw_keyvalue"])
        rec.ev()
        rec.count("mode:" + mode)
        pq = gen_pairs(rng, model, vocab, t, x.fields)
        pk = gen_pairs(rng, model, vocab, t, x.fields, for_kw=True)
        one_case(rec, model, vocab, Sid, rng, t, s, pq, pk, mode)
        if it % 2999 == 0:
            rec.sample({"sid": s, "mode": mode, "query": "&".join("%s=%s" % p for p in pq), "kw": dict(pk)})
    fin()
    return rec.result()
