"""C18 — get_last, get_next and get_new implement a gap-free version workflow."""
from lib import driver
from lib.rec import Rec

LEVEL = "exploration"
RULE = ("Generated trees with arbitrary version sets (empty, sparse, contiguous, containing the last representable version) for several tasks "
        "of assets and shots, with files / states spread unevenly over the versions; for task / version / state / file Sids (existing or not, "
        "version concrete, '*', '>' or absent): get_last('version'), get_next('version'), get_new('version') are compared with an oracle built "
        "on the R7 existing set and the version pattern read from the live templates (prefix + N digits); other fields must be unchanged; "
        "beyond the last representable version the empty Sid is expected. Histories of up to 8 create(get_new(...)) steps interleaved over two "
        "tasks are checked for strictly increasing, never reused versions (ordering checker over the recorded publish events). "
        "Non-trivial = distinct (universe, sid, call) with at least one existing version, or a publish history step.")
ASSUME = ["get_new on a Sid that carries a concrete version while NO version exists is not judged (statement silent)",
          "the version key is 'version' and its pattern is a literal prefix followed by digits (read from the configuration)",
          "existing = R7 (path-backed levels from the tree, state level from the configured constants)"]
BUDGET = {"quick": (160, 24, 6), "thorough": (12800, 36, 8)}     # universes, sids per universe, history steps
NSHARDS = 16


def shard_args(tier, seed):
    u, k, h = BUDGET[tier]
    return [{"universes": max(1, u // NSHARDS), "sids": k, "hsteps": h, "seed": seed * 1000 + i, "dataconf_variant": i % 4 == 2} for i in range(NSHARDS)]


def envs(snap, shard_args_list):
    # every fourth shard runs under a second data configuration (Finders / Getters created once per path configuration)
    from lib import dataconf_variant
    return dataconf_variant.envs(snap, shard_args_list)


def floors(m, tier):
    u, k, h = BUDGET[tier]
    c = m.counters
    return {"get_last judged": (c.get("get_last", 0), u * k // 3),
            "get_last non-empty": (c.get("get_last_nonempty", 0), u * k // 8),
            "get_next judged": (c.get("get_next", 0), u * k // 3),
            "get_new judged": (c.get("get_new", 0), u * k // 3),
            "beyond last representable version": (c.get("overflow_cases", 0), u // 8),
            "publish steps": (c.get("publish_steps", 0), u * 2),
            "sparse version sets": (c.get("sparse_sets", 0), u // 4),
            "get_next of a concrete version with a symbol in another field": (c.get("get_next_with_symbol_elsewhere", 0), u // 4)}


def run(snap, tier, seed, t0, replay):
    return driver.simple_run("C18", snap, tier, seed, t0, replay, LEVEL, RULE, ASSUME, shard_args, floors_fn=floors, envs_fn=envs)


class VersionFormat:
    def __init__(self, lab):
        self.prefix, self.ndigits = None, None
        for t in lab.model.templates:
            if "version" in t.keys:
                info = lab.vocab.info[t.name][t.keys.index("version")]
                if info["digits"]:
                    form = info["digits"][0]
                    self.prefix = "".join(tok[1] for tok in form if tok[0] == "lit")
                    self.ndigits = sum(1 for tok in form if tok[0] == "digit")
                    break

    def fmt(self, n):
        s = str(n).rjust(self.ndigits, "0")
        return self.prefix + s if len(s) == self.ndigits else None

    def num(self, v):
        return int(v[len(self.prefix):])

    @property
    def maxn(self):
        return 10 ** self.ndigits - 1


def build_universe(lab, rng, vf):
    """Entities for 2-3 tasks with chosen version sets."""
    from lib import universe
    model, vocab = lab.model, lab.vocab
    leaves = [t for t in universe.leaf_templates(model, vocab) if "version" in t.keys]
    ents = set()
    tasks = []
    sparse = False
    for _ in range(rng.randint(2, 3)):
        t = rng.choice(leaves)
        base = vocab.valid_segments(t, rng, pool=lab.names, small=True)
        vi = t.keys.index("version")
        kind = rng.choice(["empty", "contig", "sparse", "max", "single"])
        if kind == "empty":
            V = []
        elif kind == "contig":
            V = list(range(1, rng.randint(2, 5)))
        elif kind == "sparse":
            V = sorted(rng.sample([1, 2, 3, 5, 7, 10, 19, 20, 100], rng.randint(2, 4)))
            sparse = True
        elif kind == "max":
            V = sorted(set(rng.sample([1, 2, vf.maxn - 1, vf.maxn], rng.randint(1, 3)) + [vf.maxn]))
        else:
            V = [rng.choice([1, 4, 9])]
        task_prefix = base[:vi]
        tasks.append((t, task_prefix))
        ents.add("/".join(task_prefix))
        for n in V:
            v = vf.fmt(n)
            if rng.random() < 0.2:
                ents.add("/".join(task_prefix + [v]))      # a bare version folder
                continue
            for _f in range(rng.randint(1, 3)):
                t2 = rng.choice([u for u in leaves if u.keys[:vi + 1] == t.keys[:vi + 1]])
                segs = task_prefix + [v] + [vocab.value(t2, i, rng, pool=lab.names, small=True) for i in range(vi + 1, t2.nseg)]
                s = "/".join(segs)
                if model.natural(s) is not None and not model.is_search_string(s) and segs[-1] not in model.alias:
                    ents.add(s)
    return sorted(ents), tasks, sparse


def exp_last(lab, vf, tname, fields):
    """Greatest existing sibling by version (all other fields equal). Returns string or '' ; None = not judged."""
    model = lab.model
    f2 = dict(fields)
    f2["version"] = "*"
    types = model.types_of(f2)
    if not types:
        return None
    t = tname if tname in types else types[0]
    if len(types) > 1 and tname not in types:
        return None
    s = model.render(t, f2)
    m = lab.allmodel.ans_all(s)
    if m is None:
        return None
    T = model.by_name[t]
    vi = T.keys.index("version")
    m = [e for e in m if len(e.split("/")) == T.nseg]
    if not m:
        return ""
    return max(m, key=lambda e: e.split("/")[vi])


def with_version(lab, tname, fields, v):
    model = lab.model
    f2 = dict(fields)
    f2["version"] = v
    types = model.types_of(f2)
    if not types:
        return ""
    t = tname if tname in types else types[0]
    return model.render(t, f2)


def judge_calls(rec, lab, vf, e, case):
    from spil import Sid
    x = Sid(e)
    if not x:
        return
    model = lab.model
    fields = x.fields
    c = dict(case, sid=e)
    cur = fields.get("version")
    others = lambda y: {k: v for k, v in y.fields.items() if k != "version"}   # noqa
    base_others = {k: v for k, v in fields.items() if k != "version"}
    # a search symbol in ANOTHER field: get_last / get_new answer with an existing (concrete) sibling, so "every other field
    # unchanged" cannot apply - only get_next of a concrete version ("the same Sid, version + 1") is stated
    symbol_elsewhere = any(model.is_search_string(str(v)) for k, v in fields.items() if k != "version")
    if symbol_elsewhere:
        rec.unspec("get_last_get_new_with_symbol_in_another_field")
    # ---- get_last
    last = exp_last(lab, vf, x.type, fields) if not symbol_elsewhere else None
    if last is not None:
        rec.count("get_last")
        try:
            got = x.get_last("version")
        except Exception as ex:
            rec.violation("get_last_raised", c, repr(ex))
            got = None
        if got is not None:
            if last:
                rec.count("get_last_nonempty")
                rec.nt("%s|last|%s" % (case["uid"], e))
            if str(got) != last:
                rec.violation("get_last_differs", c, "got %r expected %r" % (str(got), last))
            elif got and others(got) != base_others:
                rec.violation("get_last_changed_other_fields", c, repr(got))
    # ---- get_next
    exp = None
    if cur and cur not in ("*", ">"):
        try:
            n = vf.num(cur) + 1
        except ValueError:
            n = None
        if n is not None:
            v = vf.fmt(n)
            exp = with_version(lab, x.type, fields, v) if v else ""
            if not v:
                rec.count("overflow_cases")
    elif cur in ("*", ">"):
        if last is not None and not symbol_elsewhere:
            n = (vf.num(last.split("/")[model.by_name[x.type].keys.index("version")]) if last else 0) + 1
            v = vf.fmt(n)
            exp = with_version(lab, x.type, fields, v) if v else ""
            if not v:
                rec.count("overflow_cases")
    elif not symbol_elsewhere:
        exp = with_version(lab, x.type, fields, vf.fmt(1))
    if exp is not None:
        rec.count("get_next")
        if symbol_elsewhere:
            rec.count("get_next_with_symbol_elsewhere")
        try:
            got = x.get_next("version")
            if str(got) != exp:
                rec.violation("get_next_differs", c, "got %r expected %r" % (str(got), exp))
            elif got and others(got) != base_others:
                rec.violation("get_next_changed_other_fields", c, repr(got))
            elif not got and str(got) != "":
                rec.violation("get_next_invalid_instead_of_empty", c, repr(got))
        except Exception as ex:
            rec.violation("get_next_raised", c, repr(ex))
    # ---- get_new
    if symbol_elsewhere:
        pass
    elif last is not None and cur not in ("*", ">"):
        # (no version exists at all: the successor of "nothing" is the first version - whatever version the Sid itself carries;
        #  "for any Sid with or without a version and any set of existing versions", the documented "or first version if there is no version")
        if last == "" and cur:
            rec.count("get_new_without_any_existing_version")
        n = (vf.num(last.split("/")[model.by_name[Sid(last).type].keys.index("version")]) if last else 0) + 1
        v = vf.fmt(n)
        if not v:
            rec.count("overflow_cases")
        exp = with_version(lab, x.type, fields, v) if v else ""
        rec.count("get_new")
        if last:
            rec.nt("%s|new|%s" % (case["uid"], e))
        try:
            got = x.get_new("version")
            if str(got) != exp:
                rec.violation("get_new_differs", c, "got %r expected %r (last existing %r)" % (str(got), exp, last))
            elif got and lab.allmodel.exists_all(str(got)) and str(got) in lab.exists[lab.default_config]:
                rec.violation("get_new_already_exists", c, repr(got))
            elif got and others(got) != base_others:
                rec.violation("get_new_changed_other_fields", c, repr(got))
        except Exception as ex:
            rec.violation("get_new_raised", c, repr(ex))


def publish_history(rec, lab, vf, rng, tasks, steps, case):
    """create(get_new('version')) repeatedly, interleaved over two task contexts: strictly increasing, never reused."""
    from spil import Sid, WriteToPaths
    model = lab.model
    w = WriteToPaths()
    seen = {}
    events = []
    ctxs = []
    for t, prefix in tasks[:2]:
        vi = t.keys.index("version")
        segs = prefix + [vf.fmt(1)] + [lab.vocab.value(t, i, rng, pool=lab.names, small=True) for i in range(vi + 1, t.nseg)]
        s = "/".join(segs)
        if model.natural(s) is not None and not model.is_search_string(s) and segs[-1] not in model.alias:
            ctxs.append(s)
    if not ctxs:
        return
    for step in range(steps):
        ctx = rng.choice(ctxs)
        x = Sid(ctx)
        c = dict(case, sid=ctx, step=step, events=list(events))
        try:
            new = x.get_new("version")
        except Exception as ex:
            rec.violation("get_new_raised", c, repr(ex))
            return
        rec.count("publish_steps")
        rec.nt("%s|pub|%s|%d" % (case["uid"], ctx, step))
        if not new:
            events.append((ctx, None))
            continue
        v = vf.num(new.get("version"))
        key = tuple(sorted((k, val) for k, val in new.fields.items() if k != "version"))
        prev = seen.get(key, [])
        if prev and v <= max(prev):
            rec.violation("version_not_strictly_increasing", c, "published %s after %r" % (new, prev))
            return
        if lab.trees.path_of(lab.default_config, str(new))[0] and str(new) in lab.exists[lab.default_config]:
            rec.violation("get_new_already_exists", c, repr(new))
            return
        try:
            w.create(new)
        except Exception as ex:
            rec.violation("create_of_get_new_raised", c, "%r: %r" % (new, ex))
            return
        seen.setdefault(key, []).append(v)
        events.append((ctx, str(new)))
        lab.refresh_exists([str(new)], configs=[lab.default_config])
    return events


def worker(args):
    from lib.findlab import Lab
    rec = Rec("C18")
    lab = Lab(args.get("seed", 0))
    rng = lab.rng
    vf = VersionFormat(lab)
    if vf.prefix is None:
        rec.inconclusive.append("no digit pattern found for key 'version' in the live templates")
        return rec.result()
    if "replay" in args:
        c = args["replay"]
        rec.ev()
        lab.new_universe(ents=c["ents"], names=c.get("names"), only_default=c.get("only_default"))
        if "events" in c:
            from spil import WriteToPaths
            for ctx, new in c["events"]:
                if new:
                    try:
                        WriteToPaths().create(new)
                        lab.refresh_exists([new], configs=[lab.default_config])
                    except Exception:
                        pass
        judge_calls(rec, lab, vf, c["sid"], dict(c))
        lab.trees.reset()
        return rec.result()
    for u in range(args["universes"]):
        # (an open-level name may look exactly like a version value)
        lab.names = rng.sample(["a", "b", "oph", "a-b", vf.fmt(1), vf.fmt(2), vf.fmt(1), vf.fmt(3)], 2)
        ents, tasks, sparse = build_universe(lab, rng, vf)
        lab.new_universe(ents=ents, names=lab.names)
        if sparse:
            rec.count("sparse_sets")
        uid = "%s-%d" % (args.get("seed"), u)
        case = {"ents": ents, "names": lab.names, "only_default": lab.only_default, "uid": uid}
        cands = []
        for e in lab.full:
            t = lab.model.natural(e)
            if t is None:
                continue
            if "version" in t.keys or (t.nseg + 1 <= lab.model.max_len and any("version" in u2.keys and u2.keys[:t.nseg] == t.keys for u2 in lab.model.templates)):
                cands.append(e)
        # variants: other (non existing) versions, '*' and '>' versions
        extra = []
        for e in rng.sample(cands, min(len(cands), 8)):
            t = lab.model.natural(e)
            if "version" in t.keys:
                vi = t.keys.index("version")
                segs = e.split("/")
                for v in (vf.fmt(rng.choice([1, 2, 6, 50, vf.maxn - 1, vf.maxn])), "*", ">"):
                    s2 = "/".join(segs[:vi] + [v] + segs[vi + 1:])
                    if lab.model.natural(s2) is not None:
                        extra.append(s2)
                # a concrete version, a search symbol in ANOTHER field: get_next is still "the same Sid, version + 1"
                others_i = [i for i in range(2, len(segs)) if i != vi]
                if others_i:
                    s3 = segs[:]
                    s3[rng.choice(others_i)] = "*"
                    s3 = "/".join(s3)
                    if lab.model.natural(s3) is lab.model.natural(e):
                        extra.append(s3)
                        rec.count("concrete_version_with_symbol_elsewhere")
        pool = cands + extra
        for e in rng.sample(pool, min(len(pool), args["sids"])):
            rec.ev()
            judge_calls(rec, lab, vf, e, case)
        rec.ev()
        ev = publish_history(rec, lab, vf, rng, tasks, rng.randint(2, args["hsteps"]), case)
        if u == 0:
            rec.sample({"entities": ents[:6], "publish_events": ev})
    lab.trees.reset()
    return rec.result()
