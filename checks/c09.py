"""C09 — the '>' (last) operator returns the greatest entry of each group."""
from lib import driver
from lib.rec import Rec

LEVEL = "exploration"
RULE = ("G5 universes whose names contain characters sorting below '/' (- . +) and prefix pairs (a, a-b, ab), materialised as list, local and "
        "server tree; G4 searches with '>' forced at a random position (optionally a second '>' further right, aliases, '*', '**', comma lists, "
        "filters elsewhere). When the observed unfolded forms carry their first '>' at one index i, every finder's result must equal R6 (one "
        "entry per distinct i-segment prefix among the matches of the search with '>' read as '*': the greatest remaining-segment tuple) "
        'computed on: the textual matches for FindInList, the typed matches for FindInPaths(local/server), the R7 matches for FindInAll. '
        "Sid.get_last(key) is compared with the R6 answer of get_with(key=key, value='>') through FindInAll. The get_last questions of the "
        'previous universe are asked again in the next one (the data changed in between); names include digit runs that order differently as '
        'numbers and as strings. Non-trivial = distinct (universe, search) where some group has at least 2 candidates.')
ASSUME = ["searches whose unfolded forms put '>' at different indices, or not as a whole segment in every form, are outside the statement's "
          "premise and not judged", "unfolded forms are observed from the real unfold_search"]
BUDGET = {"quick": (240, 30), "thorough": (8000, 50)}
NSHARDS = 16


def shard_args(tier, seed):
    u, k = BUDGET[tier]
    return [{"universes": max(1, u // NSHARDS), "searches": k, "seed": seed * 1000 + i, "dataconf_variant": i % 4 == 2} for i in range(NSHARDS)]


def envs(snap, shard_args_list):
    # every fourth shard runs under a second data configuration (Finders / Getters created once per path configuration)
    from lib import dataconf_variant
    return dataconf_variant.envs(snap, shard_args_list)


def floors(m, tier):
    u, k = BUDGET[tier]
    c = m.counters
    return {"'>' searches judged": (c.get("judged", 0), u * k // 3),
            "groups with >=2 candidates": (c.get("contested", 0), u * k // 10),
            "several typed forms": (c.get("several_forms", 0), u * k // 20),
            "order differs between string and segment comparison": (c.get("string_vs_tuple_differs", 0), 5),
            "get_last evaluations": (c.get("get_last", 0), u * 3),
            "get_last non-empty": (c.get("get_last_nonempty", 0), u)}


def run(snap, tier, seed, t0, replay):
    return driver.simple_run("C09", snap, tier, seed, t0, replay, LEVEL, RULE, ASSUME, shard_args, floors_fn=floors, envs_fn=envs)


def force_last(rng, lab, s):
    if ">" in s:
        return s
    body, q = (s.split("?", 1) + [""])[:2]
    segs = body.split("/")
    idx = [i for i, x in enumerate(segs) if x != "**"]
    if not idx:
        return s
    i = rng.choice(idx)
    segs[i] = ">"
    if rng.random() < 0.2:
        j = [k for k in idx if k > i]
        if j:
            segs[rng.choice(j)] = ">"
    return "/".join(segs) + ("?" + q if q else "")


def judge_search(rec, lab, s, case):
    from lib.findlab import run_find, filter_is_unspecified, last_index
    from lib.refmodel import gmatch, last_of
    from spil import SpilException
    if filter_is_unspecified(s):
        rec.unspec("url_metachar_in_filter")
        return
    try:
        forms = lab.allmodel.unfold(s)
    except SpilException:
        rec.count("unfold_SpilException")
        return
    except Exception as e:
        rec.count("unfold_raised")
        return
    kind, idx = last_index([f for _t, f in forms])
    if kind != "uniform":
        rec.unspec("last_" + kind)
        return
    rec.count("judged")
    if len(forms) > 1:
        rec.count("several_forms")
    # "the entries matching the search with '>' read as '*'": the match set is that of the '*' version of the SEARCH
    # (its own unfolding), not of the '>' forms with the symbol replaced
    try:
        sforms = lab.allmodel.unfold(s.replace(">", "*"))
    except Exception:
        rec.count("unfold_star_version_raised")
        return
    if {f.replace(">", "*") for _t, f in forms} != {f for _t, f in sforms}:
        rec.count("star_version_has_other_strings")
    expected = {}
    contested = False
    differs = False
    for name in lab.finders:
        if name == "list":
            m = {e for e in lab.list if any(gmatch(f, e) for _t, f in sforms)}
        elif name.startswith("paths:"):
            ex = lab.exists[name.split(":", 1)[1]]
            m = {e for e in ex if any(gmatch(f, e) and lab.model.natural(e).name == t for t, f in sforms)}
        else:
            # R7 matches of the observed forms
            am = lab.allmodel_of(name)
            m = set()
            ok = True
            for t, f in sforms:
                F = am.finder_for(t, f)
                if F is None:
                    continue
                a = am.ans_finder(F, t, f)
                if a is None:
                    ok = False
                    break
                m |= a
            if not ok:
                continue
        exp = last_of(m, idx)
        expected[name] = exp
        if len(m) > len(exp):
            contested = True
        # would whole-string comparison pick something else ?
        groups = {}
        for e in m:
            groups.setdefault(tuple(e.split("/")[:idx]), []).append(e)
        if any(max(g) not in exp for g in groups.values()):
            differs = True
    if contested:
        rec.count("contested")
        rec.nt(case["uid"] + "|" + s)
    if differs:
        rec.count("string_vs_tuple_differs")
    for name, exp in expected.items():
        got, exc = run_find(lab.finders[name], s, as_sid=False)
        c = dict(case, finder=name)
        if exc is not None:
            rec.violation("finder_raised", c, repr(exc))
            continue
        if len(got) != len(set(got)):
            rec.violation("duplicates", c, repr(got[:8]))
        if set(got) != exp:
            gk = [tuple(g.split("/")[:idx]) for g in got]
            kindv = "several_answers_for_one_group" if len(set(gk)) < len(gk) else "last_differs"
            rec.violation(kindv, c, "index=%d missing=%r extra=%r forms=%r" % (idx, sorted(exp - set(got))[:5], sorted(set(got) - exp)[:5], forms[:4]))


def judge_get_last(rec, lab, e, key, case):
    from spil import Sid
    from lib.refmodel import last_of
    x = Sid(e)
    if not x or key not in x.fields:
        return
    rec.count("get_last")
    c = dict(case, sid=e, key=key)
    try:
        got = x.get_last(key)
        srch = x.get_with(key=key, value=">")
    except Exception as ex:
        rec.violation("get_last_raised", c, repr(ex))
        return
    if not srch:
        return
    forms = lab.allmodel.unfold(str(srch))
    from lib.findlab import last_index
    kind, idx = last_index([f for _t, f in forms])
    if kind != "uniform":
        rec.unspec("get_last_" + kind)
        return
    m = set()
    for t, f in forms:
        f2 = f.replace(">", "*")
        F = lab.allmodel.finder_for(t, f2)
        if F is None:
            continue
        a = lab.allmodel.ans_finder(F, t, f2)
        if a is None:
            return
        m |= a
    exp = last_of(m, idx)
    if len(exp) > 1:
        rec.unspec("get_last_several_groups")
        return
    if exp:
        rec.count("get_last_nonempty")
        want = next(iter(exp))
        wt = lab.model.natural(want)
        if wt is None or key not in wt.keys:
            # the greatest entry is of a type that does not carry `key` (same string pattern, other type): statement silent
            rec.unspec("get_last_answer_of_a_type_without_the_key")
            return
        if str(got) != want:
            rec.violation("get_last_differs", c, "got %r expected %r" % (str(got), want))
    else:
        if got or str(got) != "":
            rec.violation("get_last_not_empty", c, "got %r expected empty" % str(got))


def worker(args):
    from lib.findlab import Lab
    rec = Rec("C09")
    lab = Lab(args.get("seed", 0))
    rng = lab.rng
    if "replay" in args:
        c = args["replay"]
        rec.ev()
        lab.new_universe(ents=c["ents"], names=c.get("names"), only_default=c.get("only_default"))
        if "key" in c:
            judge_get_last(rec, lab, c["sid"], c["key"], dict(c))
        else:
            judge_search(rec, lab, c["search"], dict(c))
        lab.trees.reset()
        return rec.result()
    prev_questions = []
    for u in range(args["universes"]):
        names = rng.sample(["a", "a-b", "a.b", "a+b", "ab", "b", "a-", "a-b-c"], rng.randint(3, 5))
        if rng.random() < 0.35:
            # names whose digit runs order differently as numbers and as strings ("compared segment by segment as strings")
            names = names[:2] + rng.choice([["sword2", "sword10"], ["a1", "a01", "a2"], ["v9", "v10", "v1"]])
        ents = lab.new_universe(names=names, n_leaves=rng.choice([10, 25, 45]))
        uid = "%s-%d" % (args.get("seed"), u)
        for k in range(args["searches"]):
            s, info = lab.search(allow_last=True)
            s = force_last(rng, lab, s)
            rec.ev()
            case = {"search": s, "ents": ents, "names": names, "only_default": lab.only_default, "uid": uid}
            judge_search(rec, lab, s, case)
        # the questions of the previous universe once more: the data changed in between, the answer is the one of the data as it is now
        for e, key in prev_questions:
            if lab.model.natural(e) is not None:
                rec.ev()
                rec.count("get_last_asked_again_after_the_data_changed")
                judge_get_last(rec, lab, e, key, {"ents": ents, "names": names, "only_default": lab.only_default, "uid": uid, "asked_before": True})
        prev_questions = []
        for k in range(6):
            e = rng.choice(lab.full)
            x_keys = lab.model.natural(e).keys
            key = rng.choice(x_keys)
            rec.ev()
            judge_get_last(rec, lab, e, key, {"ents": ents, "names": names, "only_default": lab.only_default, "uid": uid})
            prev_questions.append((e, key))
        if u == 0:
            rec.sample({"entities": ents[:6], "n": len(ents), "search": s})
    lab.trees.reset()
    return rec.result()
