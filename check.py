#!/venv/bin/python
"""check.py <Cnn> [--tier quick|thorough] [--replay file]

Runs the runtime-monitoring check of one property against /repo's current working tree.
exit 0: held on everything judged; exit 1 + VIOLATION line: unlisted violation; exit 2: inconclusive.
"""
import argparse
import importlib
import json
import os
import sys
import time

HERE = os.path.dirname(os.path.abspath(__file__))
sys.path.insert(0, HERE)

from lib.snapshot import Snapshot  # noqa: E402


def main():
    for stream in (sys.stdout, sys.stderr):
        try:
            stream.reconfigure(errors="backslashreplace")      # generated names may hold what no encoding can print (lone surrogates)
        except Exception:
            pass
    ap = argparse.ArgumentParser()
    ap.add_argument("prop")
    ap.add_argument("--tier", default=os.environ.get("VERIF_TIER") or "quick", choices=["quick", "thorough"])
    ap.add_argument("--replay", default=None)
    ap.add_argument("--seed", default=None)
    a = ap.parse_args()
    prop = a.prop.upper()
    seed = a.seed if a.seed is not None else os.environ.get("VERIF_SEED", "0")
    try:
        seed = int(seed)
    except ValueError:
        seed = abs(hash(seed)) % (2 ** 31)
    os.environ.setdefault("VERIF_WATCHDOG", "240" if a.tier == "quick" else "3000")
    mod = importlib.import_module("checks." + prop.lower())
    t0 = time.time()
    snap = Snapshot()
    replay = None
    if a.replay:
        with open(a.replay) as f:
            replay = json.load(f)
    try:
        code = mod.run(snap=snap, tier=a.tier, seed=seed, t0=t0, replay=replay)
    finally:
        snap.cleanup()
    sys.exit(code)


if __name__ == "__main__":
    main()
