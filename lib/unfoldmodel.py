"""R4 — reference model of search unfolding, written from the C07 statement (DESIGN Appendix A).

unfold(model, s) -> ("OK", set of uris) | ("MAY_RAISE", None) | ("UNSPECIFIED", reason)
"""
import itertools

from . import refmodel as rm


def _alias_expand(model, text):
    """'maya, mov' -> 'ma,mb,mov' (sorted, deduped); text without ',' and not an alias stays."""
    parts = [p.strip() for p in text.split(",")] if "," in text else [text]
    out = []
    for p in parts:
        out.extend(model.alias.get(p, [p]))
    return ",".join(sorted(set(out)))


def apply_r3(model, tname, fields, string, q):
    """C04 outcome rule. Returns ("applied", type, fields, string) | ("refused",) | ("UNSPECIFIED", why)."""
    pairs, flags = rm.parse_query(q)
    ov, f2 = rm.overlay(fields, pairs)
    flags |= f2
    if flags & {"repeated_key", "inner_tilde", "blank_value", "url_meta", "no_equals", "empty_chunk", "bare_tilde"}:
        return ("UNSPECIFIED", "query form " + ",".join(sorted(flags)))
    if any("/" in v for v in ov.values()):
        return ("UNSPECIFIED", "slash in value")
    F = model.types_of(ov)
    if not F:
        return ("refused",)
    if len(F) == 1:
        t = F[0]
    elif tname in F:
        t = tname
    else:
        # the Sid being built ("string?query") is a search when either part carries a search symbol
        s_old = model.is_search_string(string)
        s_new = any(model.is_search_string(v) for v in ov.values())
        if s_old or s_new:
            t = F[0]
        else:
            return ("refused",)
    return ("applied", t, {k: ov[k] for k in model.by_name[t].keys}, model.render(t, ov))


def unfold(model, s, leaf_filter_keys=None):
    if " " in s:
        # blanks next to the or-sign of a body segment belong to the sign: 'char, prop' lists 'char' and 'prop'
        body, qm, q = s.partition("?")
        body = "/".join(",".join(a.strip(" ") for a in seg.split(",")) if "," in seg else seg for seg in body.split("/"))
        s = body + qm + q
    if any(c in s for c in " \t\n\r\0"):
        return ("UNSPECIFIED", "whitespace/control")
    if ":" in s:
        return ("UNSPECIFIED", "colon")
    if "?" in s:
        body, filt = s.split("?", 1)
        filt = filt.replace("?", "&")        # "all ? can be used as &"
        if filt == "":
            return ("UNSPECIFIED", "empty filter")
    else:
        body, filt = s, ""
    if "~" in filt:
        return ("UNSPECIFIED", "~ in user filter")
    if leaf_filter_keys is None:
        leaf_filter_keys = set(v for v in model.leaf_keys.values() if v)
    # 2. alias step
    segs = body.split("/")
    for seg in segs:
        if "," in seg and any(a.strip() == "" for a in seg.split(",")):
            return ("UNSPECIFIED", "empty alternative")
    segs[-1] = _alias_expand(model, segs[-1]) if segs[-1] else segs[-1]
    fpairs = []
    if filt:
        pairs, flags = rm.parse_query(filt)
        if flags & {"repeated_key", "blank_value", "url_meta", "no_equals", "empty_chunk"}:
            return ("UNSPECIFIED", "filter form")
        for k, v in pairs:
            if "," in v and any(a == "" for a in v.split(",")):
                return ("UNSPECIFIED", "empty alternative in filter")
            if k in leaf_filter_keys:
                v = _alias_expand(model, v)
            fpairs.append((k, v))
    # 3. ',' distribution
    seg_alts = [[a.strip() for a in seg.split(",")] if "," in seg else [seg] for seg in segs]
    f_alts = [[(k, a) for a in v.split(",")] if "," in v else [(k, v)] for k, v in fpairs]
    results = set()
    n_cands = 1
    for a in seg_alts + f_alts:
        n_cands *= len(a)
    if n_cands > 4000:
        return ("UNSPECIFIED", "too many alternatives")
    may_raise = False
    pending = []
    for combo in itertools.product(*seg_alts):
        c = "/".join(combo)
        for fcombo in itertools.product(*f_alts):
            f = "&".join("%s=%s" % p for p in fcombo)
            # 4. typing
            n_dstar = c.count("/**")
            if "**" in c:
                # '**' must form whole segments preceded by '/'
                for i, seg in enumerate(c.split("/")):
                    if "**" in seg and (seg != "**" or i == 0):
                        return ("UNSPECIFIED", "** not a whole non-first segment")
            typed = []
            if n_dstar > 1:
                may_raise = True
                continue
            if n_dstar == 1:
                root = c.split("/**")[0]
                rt = model.natural(root)
                if rt is None:
                    may_raise = True
                    continue
                leaf = model.leaf_keys.get(model.basetype(rt.name))
                if not leaf:
                    may_raise = True
                    continue
                base_segs = len(c.split("/")) - 1
                for n in range(0, model.max_len - base_segs + 1):
                    t_str = c.replace("/**", "/*" * n)
                    for T in model.all_types(t_str):
                        # "a leaf type (one ending in the configured leaf key)": the leaf key of the type's OWN basetype
                        if T.keys and T.keys[-1] == model.leaf_keys.get(model.basetype(T.name)):
                            typed.append((T, t_str))
            else:
                ts = model.all_types(c)
                if len(ts) > 1 and "/*" in c and model.natural(c.split("/*")[0]) is None:
                    return ("UNSPECIFIED", "untypable root with several candidate types")
                typed = [(T, c) for T in ts]
            pending.append((typed, f))
    if may_raise:
        return ("MAY_RAISE", None)
    for typed, f in pending:
        for T, t_str in typed:
            if not T.simple:
                return ("UNSPECIFIED", "complex template")
            cur = ("applied", T.name, T.fields(t_str), t_str)
            if f:
                cur = apply_r3(model, cur[1], cur[2], cur[3], f)
                if cur[0] == "UNSPECIFIED":
                    return cur
                if cur[0] == "refused":
                    continue
            # 5. narrowing
            q = model.narrow.get(model.basetype(cur[1]))
            if q:
                cur = apply_r3(model, cur[1], cur[2], cur[3], q)
                if cur[0] == "UNSPECIFIED":
                    return cur
                if cur[0] == "refused":
                    continue
            results.add(cur[1] + ":" + cur[3])
    return ("OK", results)
