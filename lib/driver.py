"""Common parent-side driver for sharded checks."""
import os

from . import harness
from .workers import run_shards, run_one


def simple_run(prop, snap, tier, seed, t0, replay, level, rule, assumptions, shard_args_fn,
               floors_fn=None, envs_fn=None, timeout=3000, extra_cov_fn=None, module=None, replay_extra=None):
    """shard_args_fn(tier, seed) -> list of args dicts; floors_fn(merged, tier) -> floors dict."""
    module = module or prop.lower()
    if replay is not None:
        case = replay.get("case", replay)
        env = envs_fn(snap, [{"replay": case}])[0] if envs_fn else snap.env()
        if isinstance(case, dict) and "_hashseed" in case:
            env = dict(env, PYTHONHASHSEED=str(case["_hashseed"]))
        res = run_one(snap, module, dict({"replay": case, "seed": seed, "tier": tier}, **(replay_extra or {})), env, timeout)
        m = harness.merge([res])
        print("REPLAY %s: violations=%d known=%d" % (prop, m.unlisted_n, sum(m.known_n.values())))
        return harness.finish(prop, tier, seed, level, m, rule, t0, assumptions, replay_mode=True)
    shard_args = shard_args_fn(tier, seed)
    envs = envs_fn(snap, shard_args) if envs_fn else None
    results = run_shards(snap, module, shard_args, envs=envs, timeout=timeout,
                         max_workers=min(len(shard_args), os.cpu_count() or 4))
    m = harness.merge(results)
    floors = floors_fn(m, tier) if floors_fn else None
    extra = extra_cov_fn(m, results) if extra_cov_fn else None
    return harness.finish(prop, tier, seed, level, m, rule, t0, assumptions, floors=floors, extra_cov=extra)
