"""Materialise a universe of entities as file trees (one per path configuration), independently of spil:
paths come from lib.pathmodel (own renderer), files are touched / folders created with os calls."""
import os
import shutil


class TreeSet:
    def __init__(self, model, configs=None):
        from spil import conf
        from .pathmodel import PathModel
        self.model = model
        self.configs = list(configs or conf.path_configs)
        self.pms = {c: PathModel(c) for c in self.configs}

    def reset(self):
        for pm in self.pms.values():
            root = pm.root.rstrip("/")
            if os.path.isdir(root):
                shutil.rmtree(root, ignore_errors=True)
            # also sibling roots below the common testing folder are left alone

    def is_file_type(self, pm, tname):
        t = pm.templates.get(tname)
        if t is None:
            return False
        last = t.segs[-1]
        return any(p[0] == "lit" and "." in p[1] for p in last) and len(last) > 1

    def path_of(self, c, e):
        """(path, is_file) for entity string e in config c, or (None, None) if its type has no path template."""
        pm = self.pms[c]
        t = self.model.natural(e)
        if t is None:
            return None, None
        fields = t.fields(e)
        p = pm.render(t.name, fields)
        if p is None:
            return None, None
        return p, self.is_file_type(pm, t.name)

    def materialise(self, ents, configs=None):
        """Creates every entity that has a path. Returns {config: set of existing path-backed entity strings (with ancestors)}."""
        out = {}
        for c in (configs or self.configs):
            existing = set()
            for e in ents:
                p, is_file = self.path_of(c, e)
                if p is None:
                    # the entity itself has no path in this config: nothing to create for it
                    continue
                if is_file:
                    os.makedirs(os.path.dirname(p), exist_ok=True)
                    if not os.path.exists(p):
                        open(p, "w").close()
                else:
                    os.makedirs(p, exist_ok=True)
                existing.add(e)
            out[c] = self.closure(c, existing)
        return out

    def closure(self, c, existing):
        """existing + every '/'-prefix of an existing entity whose natural type has a path template in c
        (creating a deep path creates its ancestors' folders)."""
        pm = self.pms[c]
        res = set(existing)
        for e in existing:
            parts = e.split("/")
            for i in range(1, len(parts)):
                a = "/".join(parts[:i])
                t = self.model.natural(a)
                te = self.model.natural(e)
                if (t is not None and te is not None and t.keys == te.keys[:len(t.keys)]          # a real ancestor level (same keys)
                        and t.name in pm.templates and pm.render(t.name, t.fields(a))):
                    # C15: "an entity exists together with all its ancestors that have a path" - whether the configured
                    # templates really nest is part of what is checked, not assumed
                    res.add(a)
        return res

    def plant_junk(self, rng, ents, configs=None):
        """Plants files / folders that conform to NO template (checked with R8). Returns list of planted paths."""
        planted = []
        self.planted_desync = 0
        for c in (configs or self.configs):
            pm = self.pms[c]
            cands = []
            for e in ents:
                p, is_file = self.path_of(c, e)
                if p is None:
                    continue
                d = os.path.dirname(p) if is_file else p
                base = os.path.basename(p)
                r = rng.random()
                if is_file:
                    stem, dot, ext = base.rpartition(".")
                    cands += [
                        (os.path.join(d, "." + stem + ".data.json"), True),                 # sidecar
                        (os.path.join(d, stem.replace("_", "-", 1) + "." + ext), True),      # wrong separator
                        (os.path.join(d, "zz" + base), True),                               # desynchronised first field
                        (os.path.join(d, stem + ".bak"), True),                             # unknown extension
                        (os.path.join(d, stem + "." + ext + "~"), True),
                        (os.path.join(os.path.dirname(d), base), True),                     # wrong depth
                        (os.path.join(d, "Thumbs.db"), True),
                    ]
                else:
                    cands += [
                        (os.path.join(d, ".DS_Store"), True),
                        (os.path.join(os.path.dirname(d), base + ".txt"), True),
                        (os.path.join(d, "zz_stray folder"), False),
                        (os.path.join(os.path.dirname(d), "." + base + ".data.json"), True),
                    ]
            rng.shuffle(cands)
            n = 0
            for path, isf in cands:
                if n >= 12:
                    break
                if os.path.exists(path) or pm.conforming(path):
                    continue
                # do not create anything inside a place that would make an ANCESTOR conform wrongly: parents are existing folders
                if not os.path.isdir(os.path.dirname(path)):
                    continue
                if isf:
                    open(path, "w").close()
                else:
                    os.makedirs(path, exist_ok=True)
                planted.append(path)
                n += 1
            # desynchronised duplicates: a repeated field carries another (valid looking) value in the last path component
            nd = 0
            for e in ents:
                if nd >= 3:
                    break
                p, is_file = self.path_of(c, e)
                if p is None:
                    continue
                t = self.model.natural(e)
                tpl = pm.templates[t.name]
                vals = tpl.parse(p)
                if not vals:
                    continue
                last_keys = [q[1] for q in tpl.segs[-1] if q[0] == "ph"]
                rep = [k for k in last_keys if sum(1 for seg in tpl.segs for q in seg if q[0] == "ph" and q[1] == k) > 1]
                if not rep:
                    continue
                k = rng.choice(rep)
                v = vals[k]
                others = sorted({tpl2.parse(p2)[k] for e2 in ents for (p2, _f) in [self.path_of(c, e2)] if p2
                                 for tpl2 in [pm.templates[self.model.natural(e2).name]] if tpl2.parse(p2) and k in tpl2.parse(p2)} - {v})
                if not others:
                    continue
                v2 = rng.choice(others)
                d, base = os.path.dirname(p), os.path.basename(p)
                if v not in base:
                    continue
                stray = os.path.join(d, base.replace(v, v2, 1))
                if pm.conforming(stray) or os.path.exists(stray):
                    continue
                if is_file:
                    open(stray, "w").close()
                else:
                    os.makedirs(stray, exist_ok=True)
                planted.append(stray)
                self.planted_desync += 1
                nd += 1
            # the library's OWN sidecars (hidden '.<name>.data.json' next to the entity, location from the live configuration): for a
            # folder entity at a free-text level the sidecar's name conforms textually to that level's template - it is still no entity
            try:
                from pathlib import Path
                from spil import conf as _conf
                ns = 0
                order = list(ents)
                rng.shuffle(order)
                for e in order:
                    if ns >= 6:
                        break
                    p, is_file = self.path_of(c, e)
                    if p is None or not os.path.exists(p):
                        continue
                    dp = str(_conf.get_data_json_path(Path(p)))
                    if os.path.exists(dp) or not os.path.basename(dp).startswith("."):
                        continue
                    with open(dp, "w") as f:
                        f.write('{"comment": "planted"}')
                    planted.append(dp)
                    self.planted_sidecars = getattr(self, "planted_sidecars", 0) + 1
                    ns += 1
            except ImportError:
                pass
        return planted
