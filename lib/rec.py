"""Worker-side recorder: counts, distinct non-trivial cases, violations (classified at record time)."""
import os
import hashlib
import json
from collections import Counter

from . import findings


def digest(obj):
    if not isinstance(obj, str):
        obj = json.dumps(obj, sort_keys=True, default=str)
    return hashlib.blake2b(obj.encode("utf8", "surrogatepass"), digest_size=8).hexdigest()


class StopWorkload(BaseException):
    """Raised by the primary recorder once enough unlisted violations are stored: the verdict is decided, the workload stops."""


class Rec:
    MAX_UNLISTED = 60
    MAX_KNOWN_PER = 5
    STOP_AFTER = 600
    current = None

    def __init__(self, prop):
        self.prop = prop
        self.evaluations = 0
        self.nontrivial = set()
        self.counters = Counter()
        self.unlisted = []
        self.unlisted_n = 0
        self.known = {}
        self.known_n = Counter()
        self.samples = []
        self.unspecified = 0
        self.monitor = Counter()
        self.inconclusive = []
        self._known_entries = findings.load_known(prop)
        self.primary = Rec.current is None
        if self.primary:
            Rec.current = self

    def ev(self, n=1):
        self.evaluations += n

    def nt(self, key):
        self.nontrivial.add(digest(key))

    def count(self, name, n=1):
        self.counters[name] += n

    def mon(self, name, n=1):
        self.monitor[name] += n

    def unspec(self, name=None, n=1):
        self.unspecified += n
        if name:
            self.counters["unspecified:" + name] += n

    def sample(self, s, cap=6):
        if len(self.samples) < cap:
            self.samples.append(s)

    def violation(self, kind, case, detail=""):
        """case: JSON-able dict that replays the case; kind: short mechanism-free clause name."""
        if isinstance(case, dict) and "hashseed" not in case:
            case = dict(case, _hashseed=os.environ.get("PYTHONHASHSEED", "0"))
        if isinstance(case, dict) and os.environ.get("VERIF_DATACONF_VARIANT") == "1":
            case = dict(case, _dataconf_variant=True)
        v = {"property": self.prop, "kind": kind, "case": case, "detail": str(detail)[:1500]}
        k = findings.classify(v, self._known_entries)
        if k is not None:
            self.known_n[k] += 1
            self.known.setdefault(k, [])
            if len(self.known[k]) < self.MAX_KNOWN_PER:
                self.known[k].append(v)
            return False
        self.unlisted_n += 1
        self.counters["violation:" + kind] += 1
        if len(self.unlisted) < self.MAX_UNLISTED:
            self.unlisted.append(v)
        if self.primary and self.unlisted_n >= self.STOP_AFTER:
            self.counters["stopped_early_after_violations"] = 1
            raise StopWorkload()
        return True

    def result(self):
        return {
            "evaluations": self.evaluations,
            "nontrivial": sorted(self.nontrivial),
            "counters": dict(self.counters),
            "unlisted": self.unlisted,
            "unlisted_n": self.unlisted_n,
            "known": self.known,
            "known_n": dict(self.known_n),
            "samples": self.samples,
            "unspecified": self.unspecified,
            "monitor": dict(self.monitor),
            "inconclusive": self.inconclusive,
        }
