"""Shared setup for the finder properties (C09..C12, C16, C18): one generated universe materialised as list and trees."""
import random

from . import gen, universe, searchgen
from .refmodel import SidModel
from .trees import TreeSet
from .existmodel import AllModel

# (unicode: decomposed e + U+0301, a non-BMP first character; an upper-case twin; a name ending like a sidecar; an interior line break)
TREE_NAMES = ["a", "a-b", "a.b", "a+b", "ab", "b", "oph", "ophelia", "x_rig", "B", "rig",
              "cafe\u0301", "\U0001F600hero", "Ophelia", "x.data.json", "a\nb",
              "Thumbs.db", "lost+found", "@eaDir", "desktop.ini", "constable", "nul",
              "sword2", "sword10", "sofa", "tiara", "caf\udce9", "tree{2}", "treee"]     # (names with a meaning on other systems are names)


class Lab:
    def __init__(self, seed):
        from spil import conf
        self.conf = conf
        self.model = SidModel(conf)
        self.vocab = gen.Vocab(self.model)
        self.rng = random.Random(seed)
        self.trees = TreeSet(self.model)
        self.configs = self.trees.configs
        self.default_config = conf.default_path_config or self.configs[0]
        self.usable = [t for t in self.model.templates if self.vocab.usable(t)]
        # the separator that joins fields in file names (from the live path templates): 'rig' and 'x<sep>rig' are ambiguous there
        self.fsep = "_"
        try:
            pm = self.trees.pms[self.default_config]
            seps = {}
            for tpl in pm.templates.values():
                last = tpl.segs[-1]
                for a, b, c2 in zip(last, last[1:], last[2:]):
                    if a[0] == "ph" and b[0] == "lit" and c2[0] == "ph" and len(b[1]) == 1:
                        seps[b[1]] = seps.get(b[1], 0) + 1
            if seps:
                self.fsep = max(seps, key=seps.get)
        except Exception:
            pass
        self.twin = "x%srig" % self.fsep

    def new_universe(self, n_leaves=None, junk=False, names=None, ents=None, only_default=None):
        from spil import FindInList, FindInPaths, FindInAll
        rng = self.rng
        self.trees.reset()
        self.names = names or rng.sample(TREE_NAMES, rng.randint(3, 6))        # (the pool grew: keep every name's share of the universes)
        if names is None and rng.random() < (getattr(self, "p_twins", None) or 0.35):
            # a name and the same name behind the file-name separator (x_rig / rig): ambiguous in '_' joined file names
            self.names = sorted(set(self.names[:2]) | {"rig", self.twin})
        if names is None and rng.random() < 0.2:
            # an open-level name that is also a legal leaf (extension) value: '.../w/vdb' (file) next to '.../w/vdb/abc' (node 'vdb')
            lits = [v for t in self.model.templates for i, seg in enumerate(self.vocab.info[t.name]) if i == t.nseg - 1
                    for v in seg["lits"] if v not in self.model.alias]
            if lits:
                self.names = sorted(set(self.names[:2]) | set(rng.sample(sorted(set(lits)), min(2, len(set(lits))))))
        self.ents = ents if ents is not None else universe.gen_universe(
            rng, self.model, self.vocab, n_leaves=n_leaves or rng.choice([8, 20, 40]), names=self.names)
        if ents is None and "rig" in self.names and self.twin in self.names:
            # twins differing only by rig / x_rig at one open level (a node only lives in the '_' joined file name)
            twins = set()
            for e in self.ents:
                segs = e.split("/")
                for i, v in enumerate(segs):
                    if i >= 2 and v in ("rig", self.twin):
                        t2 = segs[:]
                        t2[i] = self.twin if v == "rig" else "rig"
                        s2 = "/".join(t2)
                        if self.model.natural(s2) is not None and self.model.natural(s2) is self.model.natural(e):
                            twins.add(s2)
            self.ents = sorted(set(self.ents) | twins)
        self.exists = self.trees.materialise(self.ents)
        self.base_by_config = {c: {e for e in self.ents if self.trees.path_of(c, e)[0] is not None} for c in self.configs}
        self.only_default = []
        if only_default or (ents is None and len(self.configs) > 1 and rng.random() < 0.3):
            # the trees need not hold the same entities: a few more only in the default configuration
            extra = list(only_default) if only_default else universe.gen_universe(rng, self.model, self.vocab, n_leaves=4, names=self.names, all_levels=False)
            more = self.trees.materialise(extra, configs=[self.default_config])
            self.exists[self.default_config] = self.trees.closure(self.default_config, set(self.exists[self.default_config]) | set(more[self.default_config]))
            self.only_default = sorted(extra)
            self.base_by_config[self.default_config] |= {e for e in extra if self.trees.path_of(self.default_config, e)[0] is not None}
        self.planted = self.trees.plant_junk(rng, self.ents) if junk else []
        self.list = sorted(self.exists[self.default_config])
        self.full = universe.with_ancestors(self.ents)
        self.finders = {"list": FindInList(list(self.list))}
        for c in self.configs:
            self.finders["paths:" + c] = FindInPaths(c)
        self.finders["all"] = FindInAll()
        self.allmodel = AllModel(self.model, self.exists)
        self.allmodels = {}
        from . import dataconf_variant
        self.dataconf_variant = dataconf_variant.active()
        if self.dataconf_variant:
            # the data configuration dispatches on 'config': one FindInAll per path configuration, each answering from its tree
            self.allmodel = AllModel(self.model, self.exists, config_aware=True)
            for c in self.configs:
                if c != self.default_config:
                    self.finders["all:" + c] = FindInAll(c)
                    self.allmodels[c] = AllModel(self.model, self.exists, all_config=c, config_aware=True)
        return self.ents

    def allmodel_of(self, finder_name):
        """R7 model of a FindInAll finder of this lab ('all' or 'all:<config>')."""
        if ":" in finder_name:
            return self.allmodels[finder_name.split(":", 1)[1]]
        return self.allmodel

    def refresh_exists(self, new_ents, configs=None):
        """After entities were created through spil's writer: recompute the model's existing sets."""
        self.ents = sorted(set(self.ents) | set(new_ents))
        for c in (configs or self.configs):
            self.base_by_config[c] |= {e for e in new_ents if self.trees.path_of(c, e)[0] is not None}
        for c in self.configs:
            self.exists[c] = self.trees.closure(c, self.base_by_config[c])
        self.list = sorted(self.exists[self.default_config])
        self.full = universe.with_ancestors(sorted(set(self.ents) | set(getattr(self, "only_default", []))))

    def search(self, allow_last=False, from_entity=True, **kw):
        rng = self.rng
        if "rig" in self.names and self.twin in self.names and self.full and rng.random() < 0.2:
            # values where one is the '_'-tail of the other, in a ',' list or as a partial glob, next to '*' fields:
            # in a '_' joined file name the glob of one also hits the other
            cand = [e for e in self.full if any(v in ("rig", self.twin) for v in e.split("/")[2:])]
            if cand:
                segs = rng.choice(cand).split("/")
                idx = [i for i, v in enumerate(segs) if i >= 2 and v in ("rig", self.twin)]
                i = rng.choice(idx)
                tw = self.twin
                segs[i] = rng.choice(["rig," + tw, tw + ",rig", "r*", "*ig", "rig", tw[:2] + "*", "*" + self.fsep + "*"])
                for j in range(2, len(segs)):
                    if j != i and rng.random() < 0.6:
                        segs[j] = "*"
                return "/".join(segs), {"ops": ["separator_ambiguity"]}
        if self.model.alias and self.full and rng.random() < 0.06:
            # an alias as last segment of the search STRING, the deeper level given by the query ('x/maya?task=model'):
            # the alias expands (C07) although the Sid built from string + query does not end in it
            members = {m: a for a, ms in self.model.alias.items() for m in ms}
            cand = [(e, i) for e in self.full for i, v in enumerate(e.split("/")) if v in members and 2 <= i < len(e.split("/")) - 1]
            if cand:
                e, i = rng.choice(cand)
                segs = e.split("/")
                t = self.model.natural(e)
                if t is not None:
                    return "/".join(segs[:i] + [members[segs[i]]]) + "?%s=%s" % (t.keys[i + 1], segs[i + 1]), {"ops": ["alias_before_query"]}
        if from_entity and self.full and rng.random() < 0.85:
            base = rng.choice(self.full)
            t = self.model.natural(base)
            return searchgen.make_search(rng, self.model, self.vocab, t, allow_last=allow_last, base_segs=base.split("/"),
                                         pool=self.names, small=True, allow_malformed=False,
                                         p_star=rng.choice([0.15, 0.3, 0.6]), **kw)
        t = rng.choice(self.usable)
        return searchgen.make_search(rng, self.model, self.vocab, t, allow_last=allow_last, pool=self.names, small=True,
                                     allow_malformed=False, **kw)


def run_find(finder, s, as_sid=False):
    """Returns (list of strings or uris, exception or None)."""
    try:
        res = list(finder.find(s, as_sid=as_sid))
    except Exception as e:   # judged by the caller
        return None, e
    if as_sid:
        return [x.uri for x in res], None
    return [str(x) for x in res], None


def filter_is_unspecified(s):
    """Searches the statements do not speak about: url characters in the filter; '**' that is not a whole segment ('**b', 'a**')."""
    if any("**" in seg and seg != "**" for seg in s.split("?", 1)[0].split("/")):
        return True
    return "?" in s and any(ch in s.split("?", 1)[1] for ch in "%+;#~ ")


def last_index(forms):
    """forms: list of unfolded search strings. Returns ('none', None) when no form has '>', ('uniform', i) when every
    form carries its first '>' (as a whole segment) at the same index i, ('mixed', None) otherwise (outside C09's premise)."""
    idx = set()
    for f in forms:
        segs = f.split("/")
        if ">" in segs:
            idx.add(segs.index(">"))
        elif ">" in f:
            idx.add(-2)   # '>' inside a segment
        else:
            idx.add(-1)
    if idx <= {-1}:
        return "none", None
    if len(idx) == 1 and min(idx) >= 0:
        return "uniform", idx.pop()
    return "mixed", None


def observed_forms(s):
    from spil.sid.read import tools
    return [str(x) for x in tools.unfold_search(s)]
