"""G9 — configuration family derived from the demo configuration (for C20).

gen_params(rng) draws a parameter vector; emit(params, dirpath) writes a configuration package
(spil_sid_conf, spil_data_conf, spil_fs_conf, spil_fs_server_conf[, spil_fs_third_conf]) that follows the documented
conventions by construction: ordered templates per basetype, a leaf key per basetype, mutually exclusive value patterns
per level, path templates mirroring the Sid templates, one-to-one value mappings.
"""
import json
import os

RENAMES = {
    "project": ["project", "show", "prj"],
    "type": ["type", "kind", "branch"],
    "assettype": ["assettype", "cat", "family"],
    "asset": ["asset", "name", "item"],
    "sequence": ["sequence", "seq", "episode", "s\u00e9quence"],      # (key names are identifiers: non-ASCII letters are legal)
    "shot": ["shot", "plan", "cut", "shot_name"],
    "task": ["task", "step", "dept", "t\u00e2che"],
    "version": ["version", "rev", "iteration"],
    "state": ["state", "status", "stage", "pub_state"],
    "node": ["node", "element"],
    "ext": ["ext", "format", "suffix"],
    "layer": ["layer"], "pass": ["pass", "aov"],
}


def gen_params(rng, variant=None):
    p = {}
    ident = (variant == "identity")
    p["keys"] = {k: (k if ident else rng.choice(v)) for k, v in RENAMES.items()}
    p["bt_asset"] = "asset" if ident else rng.choice(["asset", "thing", "lib"])
    p["bt_shot"] = "shot" if ident else rng.choice(["shot", "clip", "scene"])
    p["bt_project"] = "project" if ident else rng.choice(["project", "show", "root"])
    p["code_asset"], p["code_shot"], p["code_render"] = ("a", "s", "r") if ident else rng.choice([("a", "s", "r"), ("x", "y", "z"), ("lib", "film", "img")])
    p["projects"] = ["hamlet"] if ident else rng.choice([["hamlet"], ["macbeth", "lear"], ["p1"]])
    p["asset_types"] = ["char", "location", "prop", "fx"] if ident else rng.choice([["char", "location", "prop", "fx"], ["hero", "bg"], ["c", "l", "p"]])
    p["asset_tasks"] = ["art", "model", "surface", "rig"] if ident else rng.choice([["art", "model", "surface", "rig"], ["design", "build"], ["m", "s", "r"]])
    p["shot_tasks"] = ["board", "layout", "anim", "fx", "render", "comp"] if ident else rng.choice([["board", "layout", "anim", "fx", "render", "comp"], ["lay", "ani", "lgt"], ["a1", "a2"]])
    p["states"] = ["w", "p"] if ident else rng.choice([["w", "p"], ["wip", "pub"], ["work", "review", "final"]])
    p["version_pat"] = ("v", 3) if ident else rng.choice([("v", 3), ("r", 4), ("take", 2)])
    p["seq_pat"] = ("sq", 3) if ident else rng.choice([("sq", 3), ("e", 2), ("seq", 4)])
    p["shot_pat"] = ("sh", 4) if ident else rng.choice([("sh", 4), ("p", 3), ("c", 2)])
    p["scenes"] = ["ma", "mb", "hip", "blend", "hou", "psd", "nk", "maya"] if ident else rng.choice(
        [["ma", "mb", "hip", "blend", "hou", "psd", "nk", "maya"], ["ma", "mb", "hip", "hipnc", "hou", "maya"], ["blend", "kra"]])
    p["caches"] = ["abc", "json", "fur", "grm", "vdb", "cache"] if ident else rng.choice([["abc", "json", "fur", "grm", "vdb", "cache"], ["abc", "usd", "cache"], ["bgeo", "vdb"]])
    p["movies"] = ["mp4", "mov", "avi", "movie"] if ident else rng.choice([["mp4", "mov", "avi", "movie"], ["mov", "mkv", "movie"], ["webm"]])
    p["with_assettype"] = True if ident else rng.random() < 0.7
    p["with_step"] = False if ident else rng.random() < 0.35
    p["with_node"] = True if ident else rng.random() < 0.7
    p["third_basetype"] = False if ident else rng.random() < 0.5
    p["third_config"] = False if ident else rng.random() < 0.5
    p["third_config_own_mapping"] = False if ident else rng.random() < 0.6     # the third path configuration has its own folder vocabulary
    p["default_config"] = "local" if ident else rng.choice(["local", "local", "server"])      # the default need not be the first configured
    p["third_config_narrow"] = False if ident else rng.random() < 0.4      # the third configuration only knows the first state
    p["twin_basetype"] = False if ident else rng.random() < 0.5
    p["explicit_root"] = True if ident else rng.random() < 0.7             # False: the one-key root level is left to extrapolation               # a basetype with the SAME key names as the shot one (other type code)
    p["sep"] = "_" if ident else rng.choice(["_", "-", "_", "="])   # (no regex metacharacters: literal template parts are read as regex by the resolver)
    p["folders"] = {"prod": "PROD", "assets": "ASSETS", "shots": "SHOTS", "output": "OUTPUT", "export": "EXPORT", "renders": "RENDERS"} if ident else rng.choice([
        {"prod": "PROD", "assets": "ASSETS", "shots": "SHOTS", "output": "OUTPUT", "export": "EXPORT", "renders": "RENDERS"},
        {"prod": "work", "assets": "lib", "shots": "film", "output": "out", "export": "exp", "renders": "img"},
        {"prod": "P", "assets": "A", "shots": "S", "output": "O", "export": "E", "renders": "R"}])
    p["mapping_style"] = "demo" if ident else rng.choice(["demo", "identity", "swap", "demo", "partial"])
    p["leaf_per_basetype"] = False if ident else rng.random() < 0.5
    p["kp_universal_last"] = False if ident else rng.random() < 0.4
    p["dotdot_root"] = False         # (set by the C20 stratification: the configured root folder is spelled with a '..' component)
    p["prefix_vocab"] = False        # (set by the C20 stratification only: a closed vocabulary with 'x' and 'x<sep>big' - see known finding resolva_repeated_placeholder)
    p["derived_configs"] = False if ident else rng.random() < 0.4      # secondary path configurations derived from the main module ("import *")
    p["constants"] = True if ident else rng.random() < 0.7
    p["explicit_intermediates"] = False if ident else rng.random() < 0.4
    return p


def _alt(values):
    return "(" + "|".join(values) + r"|\*|\>)"


def _digits(prefix, n):
    return "(" + prefix + r"\d" * n + r"|\*|\>)"


def build(p):
    if p.get("prefix_vocab") and p.get("with_assettype", True) and not any(v.endswith(p["sep"] + "big") for v in p["asset_types"]):
        # one value of a closed vocabulary is another one + the file-name separator + text (listed AFTER the short one)
        p = dict(p, asset_types=list(p["asset_types"]) + [p["asset_types"][0] + p["sep"] + "big"])
    """Returns a structured description used by emit()."""
    K = p["keys"]
    A, S, P = p["bt_asset"], p["bt_shot"], p["bt_project"]
    ca, cs, cr = p["code_asset"], p["code_shot"], p["code_render"]
    leaf = K["ext"]
    leaf_r = "img" if p.get("leaf_per_basetype") else leaf      # "a leaf key per basetype": the render basetype may name its own
    # ----- sid levels
    a_levels = [K["project"], K["type"]] + ([K["assettype"]] if p["with_assettype"] else []) + [K["asset"]] + \
               ([K["layer"]] if p["with_step"] else []) + [K["task"], K["version"], K["state"]]
    s_levels = [K["project"], K["type"], K["sequence"], K["shot"], K["task"], K["version"], K["state"]]

    def tpl(levels, code, last=None, tag=None):
        parts = []
        for k in levels:
            if k == K["type"]:
                parts.append("{%s:%s}" % (k, code))
            else:
                parts.append("{%s}" % k)
        if last:
            parts.append("{%s:%s}" % (last, tag))
        return "/".join(parts)

    T = []  # ordered (name, template)
    T.append((A + "__file", tpl(a_levels, ca, leaf, "scenes")))
    T.append((A + "__movie_file", tpl(a_levels, ca, leaf, "movies")))
    T.append((A + "__cache_file", tpl(a_levels, ca, leaf, "caches")))
    T.append((A + "__" + K["state"], tpl(a_levels, ca)))
    if p["explicit_intermediates"]:
        T.append((A + "__" + K["task"], tpl(a_levels[:-2], ca)))
    T.append((A, tpl(a_levels[:2], ca)))
    T.append((S + "__file", tpl(s_levels, cs, leaf, "scenes")))
    T.append((S + "__movie_file", tpl(s_levels, cs, leaf, "movies")))
    T.append((S + "__cache_file", tpl(s_levels, cs, leaf, "caches")))
    if p["with_node"]:
        T.append((S + "__cache_node_file", tpl(s_levels + [K["node"]], cs, leaf, "caches")))
        T.append((S + "__cache_node", tpl(s_levels + [K["node"]], cs)))
    T.append((S + "__" + K["state"], tpl(s_levels, cs)))
    T.append((S, tpl(s_levels[:2], cs)))
    to_ex = [A + "__" + K["state"], S + "__" + K["state"]]
    R = None
    if p["third_basetype"]:
        R = "render"
        r_levels = [K["project"], K["type"], K["pass"], K["version"]]
        T.append((R + "__file", tpl(r_levels, cr, leaf_r, "images")))
        T.append((R + "__" + K["version"], tpl(r_levels, cr)))
        T.append((R, tpl(r_levels[:2], cr)))
        to_ex.append(R + "__" + K["version"])
    W = None
    cw = "w9"
    if p.get("twin_basetype"):
        W = "edit"
        w_levels = [K["project"], K["type"], K["sequence"], K["task"], K["version"], K["state"]]   # the shot hierarchy without the shot level
        T.append((W + "__file", tpl(w_levels, cw, leaf, "scenes")))
        T.append((W + "__" + K["state"], tpl(w_levels, cw)))
        T.append((W, tpl(w_levels[:2], cw)))
        to_ex.append(W + "__" + K["state"])
    root_type = P
    if p.get("explicit_root", True):
        T.append((P, "{%s}" % K["project"]))
    else:
        root_type = A + "__" + K["project"]      # generated by the first extrapolated type
    vp, vn = p["version_pat"]
    images = ["exr", "png"]
    kp = {
        "": {    # universal selector (the empty string is contained in every type name)
            "{%s}" % K["project"]: "{%s:%s}" % (K["project"], _alt(p["projects"])),
            "{%s}" % K["state"]: "{%s:%s}" % (K["state"], _alt(p["states"])),
            "{%s}" % K["version"]: "{%s:%s}" % (K["version"], _digits(vp, vn)),
            "{%s}" % K["sequence"]: "{%s:%s}" % (K["sequence"], _digits(*p["seq_pat"])),
            "{%s}" % K["shot"]: "{%s:%s}" % (K["shot"], _digits(*p["shot_pat"])),
            "{%s:scenes}" % leaf: "{%s:%s}" % (leaf, _alt(p["scenes"])),
            "{%s:caches}" % leaf: "{%s:%s}" % (leaf, _alt(p["caches"])),
            "{%s:movies}" % leaf: "{%s:%s}" % (leaf, _alt(p["movies"])),
            "{%s:images}" % leaf_r: "{%s:%s}" % (leaf_r, _alt(images)),
            "{%s:%s}" % (K["type"], ca): "{%s:%s}" % (K["type"], _alt([ca])),
            "{%s:%s}" % (K["type"], cs): "{%s:%s}" % (K["type"], _alt([cs])),
            "{%s:%s}" % (K["type"], cr): "{%s:%s}" % (K["type"], _alt([cr])),
            "{%s:%s}" % (K["type"], "w9"): "{%s:%s}" % (K["type"], _alt(["w9"])),
        },
        A + "__": {"{%s}" % K["task"]: "{%s:%s}" % (K["task"], _alt(p["asset_tasks"])),
                   "{%s}" % K["assettype"]: "{%s:%s}" % (K["assettype"], _alt(p["asset_types"])),
                   "{%s}" % K["layer"]: "{%s:%s}" % (K["layer"], _alt(["pre", "post"]))},
        S + "__": {"{%s}" % K["task"]: "{%s:%s}" % (K["task"], _alt(p["shot_tasks"]))},
        "edit__": {"{%s}" % K["task"]: "{%s:%s}" % (K["task"], _alt(p["shot_tasks"]))},
    }
    if p.get("kp_universal_last"):
        # the order of the selectors is the configuration's choice (it must not decide the order of the TYPES): shots first, '' last
        kp = {k: kp[k] for k in sorted(kp, key=lambda x: (x == "", x != S + "__", x))}
    alias = {}
    if "maya" in p["scenes"]:
        alias["maya"] = [x for x in ("ma", "mb") if x in p["scenes"]]
    if "hou" in p["scenes"]:
        alias["hou"] = [x for x in ("hip", "hipnc") if x in p["scenes"]] or ["hip"]
    if "cache" in p["caches"]:
        alias["cache"] = [x for x in p["caches"] if x != "cache"]
    if "movie" in p["movies"]:
        alias["movie"] = [x for x in p["movies"] if x != "movie"]
    alias = {k: v for k, v in alias.items() if v}
    key_types = {A: a_levels + [leaf], S: s_levels + ([K["node"]] if p["with_node"] else []) + [leaf], P: [K["project"]]}
    if R:
        key_types[R] = [K["project"], K["type"], K["pass"], K["version"], leaf_r]
    leaf_keys = {A: leaf, S: leaf, P: leaf, None: leaf}
    narrowing = {A: "%s=~%s" % (K["type"], ca), S: "%s=~%s" % (K["type"], cs)}
    if R:
        leaf_keys[R] = leaf_r
        narrowing[R] = "%s=~%s" % (K["type"], cr)
    if W:
        key_types[W] = w_levels + [leaf]
        leaf_keys[W] = leaf
        narrowing[W] = "%s=~%s" % (K["type"], cw)
    # ----- fs
    F = p["folders"]
    sep = p["sep"]
    if p["mapping_style"] == "identity":
        m_proj = {x: x for x in p["projects"]}
        m_type = {ca: ca, cs: cs, cr: cr, "w9": "w9"}
        m_state = {x: x for x in p["states"]}
    elif p["mapping_style"] == "swap" and len(p["states"]) >= 2:
        m_proj = {x.upper(): x for x in p["projects"]}
        m_type = {F["assets"]: ca, F["shots"]: cs, F["renders"]: cr, "EDITS": "w9"}
        st = p["states"]
        # one-to-one, sid-side values reuse path-side names (a rotation): NOT idempotent
        m_state = {st[i]: st[(i + 1) % len(st)] for i in range(len(st))}
    elif p["mapping_style"] == "partial":
        # a mapping table need not list every value: an unlisted value is its own folder name (still one-to-one)
        m_proj = {x.upper(): x for x in p["projects"][:1]}
        m_type = {F["assets"]: ca, F["shots"]: cs, F["renders"]: cr, "EDITS": "w9"}
        m_state = {"WORK": p["states"][0]}
    else:
        m_proj = {x.upper(): x for x in p["projects"]}
        m_type = {F["assets"]: ca, F["shots"]: cs, F["renders"]: cr, "EDITS": "w9"}
        names = ["WORK", "PUBLISH", "FINAL"]
        m_state = {names[i]: s for i, s in enumerate(p["states"])}

    def pv(m, sid_values):
        """path-side values of a key: the listed folder names, then the unlisted values as they are"""
        return list(m.keys()) + [v for v in sid_values if v not in m.values()]
    root = "{@project_root}"

    def fs(levels_path, fname=None):
        return "/".join([root] + levels_path + ([fname] if fname else []))

    def ph(k, tag=None):
        return "{%s:%s}" % (k, tag) if tag else "{%s}" % k
    a_dir = [ph(K["project"]), F["prod"], ph(K["type"], "ASSETSDIR")] + ([ph(K["assettype"])] if p["with_assettype"] else []) + [ph(K["asset"])] + \
            ([ph(K["layer"])] if p["with_step"] else []) + [ph(K["task"]), ph(K["version"])]
    a_name = sep.join(([ph(K["assettype"])] if p["with_assettype"] else []) + [ph(K["asset"]), ph(K["task"]), ph(K["state"]), ph(K["version"])])
    PT = []
    PT.append((A + "__file", fs(a_dir, a_name + "." + ph(leaf, "scenes"))))
    PT.append((A + "__movie_file", fs(a_dir + [F["output"]], a_name + "." + ph(leaf, "movies"))))
    PT.append((A + "__cache_file", fs(a_dir + [F["output"]], a_name + "." + ph(leaf, "caches"))))
    # intermediate folders: every prefix down to the type level
    n_fixed = 3
    inter_keys = a_levels[2:-1]  # after project,type up to version
    for i in range(len(inter_keys), 0, -1):
        PT.append((A + "__" + inter_keys[i - 1], fs(a_dir[:n_fixed + i])))
    PT.append((A, fs(a_dir[:n_fixed])))
    shot_folder = ph(K["sequence"]) + sep + ph(K["shot"])
    s_dir = [ph(K["project"]), F["prod"], ph(K["type"], "SHOTSDIR"), ph(K["sequence"]), shot_folder, ph(K["task"]), ph(K["version"])]
    s_name = sep.join([ph(K["sequence"]), ph(K["shot"]), ph(K["task"]), ph(K["state"]), ph(K["version"])])
    s_name_node = sep.join([ph(K["sequence"]), ph(K["shot"]), ph(K["task"]), ph(K["node"]), ph(K["state"]), ph(K["version"])])
    s_name_cache = sep.join([ph(K["sequence"]), ph(K["shot"]), ph(K["state"]), ph(K["version"])])
    PT.append((S + "__file", fs(s_dir, s_name + "." + ph(leaf, "scenes"))))
    PT.append((S + "__movie_file", fs(s_dir + [F["export"]], s_name + "." + ph(leaf, "movies"))))
    if p["with_node"]:
        PT.append((S + "__cache_node_file", fs(s_dir + [F["export"]], s_name_node + "." + ph(leaf, "caches"))))
    PT.append((S + "__cache_file", fs(s_dir + [F["export"]], s_name_cache + "." + ph(leaf, "caches"))))
    PT.append((S + "__" + K["version"], fs(s_dir)))
    PT.append((S + "__" + K["task"], fs(s_dir[:-1])))
    PT.append((S + "__" + K["shot"], fs(s_dir[:-2])))
    PT.append((S + "__" + K["sequence"], fs(s_dir[:-3])))
    PT.append((S, fs(s_dir[:3])))
    if R:
        r_dir = [ph(K["project"]), F["prod"], ph(K["type"], "RENDERSDIR"), ph(K["pass"]), ph(K["version"])]
        PT.append((R + "__file", fs(r_dir, sep.join([ph(K["pass"]), ph(K["version"])]) + "." + ph(leaf_r, "images"))))
        PT.append((R + "__" + K["version"], fs(r_dir)))
        PT.append((R + "__" + K["pass"], fs(r_dir[:-1])))
        PT.append((R, fs(r_dir[:3])))
    if W:
        w_dir = [ph(K["project"]), F["prod"], ph(K["type"], "EDITSDIR"), ph(K["sequence"]), ph(K["task"]), ph(K["version"])]
        w_name = sep.join([ph(K["sequence"]), ph(K["task"]), ph(K["state"]), ph(K["version"])])
        PT.append((W + "__file", fs(w_dir, w_name + "." + ph(leaf, "scenes"))))
        PT.append((W + "__" + K["version"], fs(w_dir)))
        PT.append((W + "__" + K["task"], fs(w_dir[:-1])))
        PT.append((W + "__" + K["sequence"], fs(w_dir[:-2])))
        PT.append((W, fs(w_dir[:3])))
    PT.append((root_type, fs([ph(K["project"])])))
    inv = lambda m: {v: k for k, v in m.items()}   # noqa
    fs_kp = {
        "{%s}" % K["state"]: "{%s:%s}" % (K["state"], _alt(pv(m_state, p["states"]))),
        "{%s}" % K["project"]: "{%s:%s}" % (K["project"], _alt(pv(m_proj, p["projects"]))),
        "{%s:ASSETSDIR}" % K["type"]: "{%s:%s}" % (K["type"], _alt([inv(m_type)[ca]])),
        "{%s:SHOTSDIR}" % K["type"]: "{%s:%s}" % (K["type"], _alt([inv(m_type)[cs]])),
        "{%s:RENDERSDIR}" % K["type"]: "{%s:%s}" % (K["type"], _alt([inv(m_type)[cr]])),
        "{%s:EDITSDIR}" % K["type"]: "{%s:%s}" % (K["type"], _alt([inv(m_type)["w9"]])),
    }
    # third path configuration with its own vocabulary (other state folder names), still one-to-one
    m_state3 = {("B_" + k): v for k, v in m_state.items()}
    if p.get("third_config_narrow"):
        m_state3 = dict(list(m_state3.items())[:1])       # this archive-like tree only holds entities of the first state
    fs_kp3 = dict(fs_kp)
    fs_kp3["{%s}" % K["state"]] = "{%s:%s}" % (K["state"], _alt(list(m_state3.keys()) if p.get("third_config_narrow") else pv(m_state3, p["states"])))
    return {"sid_templates": T, "to_extrapolate": to_ex, "key_patterns": kp, "alias": alias, "key_types": key_types, "leaf_keys": leaf_keys,
            "narrowing": narrowing, "projects": p["projects"], "path_templates": PT, "fs_key_patterns": fs_kp,
            "path_mapping": {K["project"]: m_proj, K["type"]: m_type, K["state"]: m_state},
            "path_defaults": {K["state"]: list(m_state.keys())[0]},
            "asset_types": p["asset_types"], "states": p["states"], "type_codes": [ca, cs] + ([cr] if R else []) + ([cw] if W else []),
            "third_mapping": {K["project"]: m_proj, K["type"]: m_type, K["state"]: m_state3} if (p.get("third_config_own_mapping") or p.get("third_config_narrow")) else None,
            "default_config": p.get("default_config", "local"),
            "third_fs_key_patterns": fs_kp3, "third_defaults": {K["state"]: list(m_state3.keys())[0]},
            "names": {"A": A, "S": S, "P": root_type, "R": R, "W": W, "K": K}, "constants": p["constants"], "third_config": p["third_config"],
            "with_assettype": p["with_assettype"]}


def _py(obj):
    return repr(obj)


def emit(p, dirpath):
    d = build(p)
    os.makedirs(dirpath, exist_ok=True)
    K = d["names"]["K"]
    A, S, P = d["names"]["A"], d["names"]["S"], d["names"]["P"]
    lk = "{" + ", ".join("%r: %r" % (k, v) for k, v in d["leaf_keys"].items()) + "}"
    sid = [
        "sip = '/'", "projects = %s" % _py(d["projects"]),
        "sid_templates = {}",
    ]
    for n, t in d["sid_templates"]:
        sid.append("sid_templates[%r] = %r" % (n, t))
    sid += ["to_extrapolate = %s" % _py(d["to_extrapolate"]),
            "extension_alias = %s" % _py(d["alias"]),
            "key_patterns = %s" % _py(d["key_patterns"]),
            "key_types = %s" % _py(d["key_types"]),
            "leaf_keys = %s" % lk,
            "basetyped_search_narrowing = %s" % _py(d["narrowing"]),
            "typed_search_narrowing = {}",
            "asset_types = %s" % _py(d["asset_types"]),
            "GENERATED_PARAMS = %s" % _py(json.dumps(p, sort_keys=True))]
    with open(os.path.join(dirpath, "spil_sid_conf.py"), "w") as f:
        f.write("\n".join(sid) + "\n")

    def fsmod(root_name, mapping=None, kp=None, defaults=None):
        lines = ["from spil_sid_conf import key_patterns as _kp", "import copy", "from pathlib import Path",
                 ("project_root_path = Path(__file__).parent / 'data' / 'testing' / 'SPIL_PROJECTS' / 'other' / '..' / %r / 'PROJECTS'" % root_name)
                 if p.get("dotdot_root") else
                 "project_root_path = Path(__file__).parent / 'data' / 'testing' / 'SPIL_PROJECTS' / %r / 'PROJECTS'" % root_name,
                 "path_templates = {}"]
        for n, t in d["path_templates"]:
            lines.append("path_templates[%r] = %r.replace('{@project_root}', project_root_path.as_posix())" % (n, t))
        lines += ["path_defaults = %s" % _py(defaults or d["path_defaults"]), "sidkeys_to_extrakeys = {}", "extrakeys_to_sidkeys = {}",
                  "path_mapping = %s" % _py(mapping or d["path_mapping"]), "search_path_mapping = {}",
                  "key_patterns = copy.deepcopy(_kp)",
                  "key_patterns[''].update(%s)" % _py(kp or d["fs_key_patterns"])]
        return "\n".join(lines) + "\n"
    if p.get("derived_configs"):
        # secondary configurations written the documented way: "use the main configuration and override some elements"
        def fsmod_generated(root_name, mapping=None, kp=None, defaults=None):
            return fsmod(root_name, mapping, kp, defaults)

        def fsmod_derived(root_name, mapping=None, kp=None, defaults=None):
            lines = ["import copy", "from pathlib import Path", "from spil_fs_conf import *  # noqa", "from spil_fs_conf import project_root_path as _main_root",
                     "project_root_path = Path(__file__).parent / 'data' / 'testing' / 'SPIL_PROJECTS' / %r / 'PROJECTS'" % root_name,
                     "path_templates = {k: v.replace(_main_root.as_posix(), project_root_path.as_posix()) for k, v in path_templates.items()}"]
            if defaults:
                lines.append("path_defaults = %s" % _py(defaults))
            if mapping:
                lines.append("path_mapping = %s" % _py(mapping))
            lines.append("key_patterns = copy.deepcopy(key_patterns)")
            if kp:
                lines.append("key_patterns[''].update(%s)" % _py(kp))
            return "\n".join(lines) + "\n"
        fs_main, fs_other = fsmod_generated, fsmod_derived
    else:
        fs_main = fs_other = fsmod
    with open(os.path.join(dirpath, "spil_fs_conf.py"), "w") as f:
        f.write(fs_main("LOCAL"))
    with open(os.path.join(dirpath, "spil_fs_server_conf.py"), "w") as f:
        f.write(fs_other("SERVER"))
    configs = {"local": "spil_fs_conf", "server": "spil_fs_server_conf"}
    if d["third_config"]:
        with open(os.path.join(dirpath, "spil_fs_third_conf.py"), "w") as f:
            if d["third_mapping"]:
                f.write(fs_other("BACKUP", d["third_mapping"], d["third_fs_key_patterns"], d["third_defaults"]))
            else:
                f.write(fs_other("BACKUP"))
        configs["backup"] = "spil_fs_third_conf"
    state_types = [A + "__" + K["state"], S + "__" + K["state"]] + ([d["names"]["W"] + "__" + K["state"]] if d["names"]["W"] else [])
    data = '''
from __future__ import annotations
from pathlib import Path

path_configs = %(configs)r
default_path_config = %(default_config)r

_finders = {}


def get_finder_for(search_sid, config=None):
    from spil import FindInConstants, FindInPaths
    if not _finders:
        fp = FindInPaths()
        _finders['default'] = fp
        if %(constants)r:
            f_projects = FindInConstants(%(kproject)r, %(projects)r)
            f_types = FindInConstants(%(ktype)r, %(codes)r, parent_source=f_projects)
            _finders[%(P)r] = f_projects
            for bt in %(bts)r:
                _finders[bt] = f_types
            if %(with_assettype)r:
                _finders[%(A)r + '__' + %(kassettype)r] = FindInConstants(%(kassettype)r, %(asset_types)r, parent_source=f_types)
            f_states = FindInConstants(%(kstate)r, %(states)r, parent_source=fp)
            for t in %(state_types)r:
                _finders[t] = f_states
    return _finders.get(search_sid.type) or _finders['default']


_getters = {}


def get_getter_for(sid, attribute=None, config=None):
    from spil import GetFromPaths
    if not _getters:
        _getters['default'] = GetFromPaths()
    if sid.type in %(no_getter)r:
        return None
    return _getters['default']


def get_writer_for(sid):
    raise NotImplementedError("get_writer_for is not implemented")


path_data_suffix = '.data.json'
create_file_using_template = {}
create_file_using_touch = True


def get_data_json_path(sid_path: Path) -> Path:
    return sid_path.with_name('.' + sid_path.name).with_suffix(path_data_suffix)
''' % {"configs": configs, "default_config": d["default_config"], "constants": d["constants"], "kproject": K["project"], "projects": d["projects"], "ktype": K["type"],
       "codes": d["type_codes"], "P": P, "bts": [A, S] + ([d["names"]["R"]] if d["names"]["R"] else []) + ([d["names"]["W"]] if d["names"]["W"] else []), "A": A,
       "kassettype": K["assettype"], "asset_types": d["asset_types"], "kstate": K["state"], "states": d["states"],
       "state_types": state_types, "with_assettype": d["with_assettype"],
       "no_getter": [P, A, S] + ([d["names"]["W"]] if d["names"]["W"] else []) + state_types + ([A + "__" + K["assettype"]] if d["with_assettype"] else [])}
    with open(os.path.join(dirpath, "spil_data_conf.py"), "w") as f:
        f.write(data)
    return d
