"""Call alphabet executor for C13 (runs inside children of the pristine fork server)."""
import os
from pathlib import Path

KEEP_ALIVE = []
CTX = {}


def canon(x):
    from spil import Sid
    if isinstance(x, Sid):
        return ["Sid", x.uri, [list(i) for i in x.fields.items()], bool(x)]
    if isinstance(x, Path):
        return ["Path", x.as_posix()]
    if isinstance(x, (list, tuple)):
        return [canon(i) for i in x]
    if isinstance(x, dict):
        return {str(k): canon(v) for k, v in sorted(x.items(), key=lambda kv: str(kv[0]))}
    if isinstance(x, (str, int, float, bool)) or x is None:
        return x
    return repr(x)


FINDERS = {}
LIVE = {}


def finder_of(name):
    """One Finder instance per name and process: a client keeps its Finder and may hold several result generators of it."""
    from spil import FindInList, FindInPaths, FindInAll
    if name == "list_extrap_new":
        return FindInList(list(CTX["leaves"]), do_extrapolate=True)       # (not kept: a new one per call)
    if name in FINDERS:
        return FINDERS[name]
    if name == "list_live":
        # the client keeps its list and appends to it: the Finder was given that very list ("data did change -> the later call reflects it")
        LIVE.setdefault("list", list(CTX["list"]))
        f = FindInList(LIVE["list"])
    elif name == "list":
        f = FindInList(list(CTX["list"]))
    elif name.startswith("paths:"):
        f = FindInPaths(name.split(":", 1)[1])
    elif name == "paths":
        f = FindInPaths()
    elif name.startswith("all:"):
        f = FindInAll(name.split(":", 1)[1])          # (the data configuration decides what the key means; the answer is a pure function of it)
    else:
        f = FindInAll()
    FINDERS[name] = f
    return f


def exec_call(spec):
    """Returns canonical result or 'EXC:<type>'."""
    from spil import Sid
    try:
        f = spec["f"]
        for pre in spec.get("pre", ()):
            exec_call(pre)           # (an equivalent spelling: "the same call, not the first of its kind in this process")
        if f == "Sid":
            args = list(spec.get("args", []))
            kw = dict(spec.get("kw", {}))
            if kw.get("path_as_Path"):
                kw.pop("path_as_Path")
                kw["path"] = Path(kw["path"])
            if spec.get("arg_path_as_Path"):
                args[3] = Path(args[3])
            return canon(Sid(*args, **kw))
        if f == "path":
            x = Sid(spec["sid"])
            return canon(x.path(*spec.get("args", []), **spec.get("kw", {})))
        if f == "unfold":
            from spil.sid.read.tools import unfold_search
            s = spec["search"]
            if spec.get("as_sid"):
                s = Sid(s)
            return canon(unfold_search(s, *spec.get("args", []), **spec.get("kw", {})))
        if f == "expand":
            from spil.sid.core.utils import expand
            return canon(expand(spec["search"], *spec.get("args", [])))
        if f == "simple_typing":
            from spil.sid.core.utils import simple_typing
            return canon(simple_typing(spec["search"]))
        if f == "match":
            return canon(Sid(spec["sid"]).match(spec["search"]))
        if f == "find":
            fd = finder_of(spec["finder"])
            mode = spec.get("mode", "list")
            if mode == "list":
                r = list(fd.find(spec["search"], **spec.get("kw", {})))
                if spec.get("as_set"):
                    r = sorted(r, key=lambda i: getattr(i, "uri", i))
                return canon(r)
            if mode == "one":
                if spec.get("as_set"):
                    # first of an unordered source: only emptiness is comparable
                    return canon(bool(fd.find_one(spec["search"])))
                return canon(fd.find_one(spec["search"]))
            return canon(fd.exists(spec["search"]))
        if f == "find_partial":
            fd = finder_of(spec["finder"])
            g = fd.find(spec["search"])
            out = []
            for _ in range(spec["k"]):
                try:
                    out.append(next(g))
                except StopIteration:
                    break
            if spec.get("keep"):
                KEEP_ALIVE.append(g)
            if spec.get("as_set"):
                return canon(len(out))
            return canon(out)
        if f == "find_interleaved":
            # one client, one Finder: a result generator is read partly, another search runs on the same Finder, the first is read on
            fd = finder_of(spec["finder"])
            g = fd.find(spec["search"], **spec.get("kw", {}))
            out = []
            for _ in range(spec["k"]):
                try:
                    out.append(next(g))
                except StopIteration:
                    break
            other = list(fd.find(spec["other_search"]))
            out.extend(g)
            if spec.get("as_set"):
                out = sorted(out, key=lambda i: getattr(i, "uri", i))
            return canon(out)
        if f == "sid_op":
            x = Sid(spec["sid"])
            op = spec["op"]
            if op == "exists":
                return canon(x.exists())
            if op == "children":
                return canon(sorted(x.children()))
            if op == "parent":
                return canon(x.parent)
            if op == "get_with":
                return canon(x.get_with(**spec["kw"]))
            if op == "get_with_query":
                return canon(x.get_with(query=spec["query"]))
            if op == "get_last":
                return canon(x.get_last(spec["key"]))
        if f == "create":
            from spil import WriteToPaths
            for c in spec["configs"]:
                WriteToPaths(c).create(spec["sid"])
            return True
        if f == "append_live":
            finder_of("list_live")
            if spec["sid"] not in LIVE["list"]:
                LIVE["list"].append(spec["sid"])
            return True
        if f == "filler":
            # more distinct calls than any cache can hold
            n = 0
            for i in range(spec["n"]):
                Sid("%s%d" % (spec["prefix"], i))
                Sid(path="%s%d" % (spec["path_prefix"], i), config=spec.get("config"))
                n += 1
            return n
        return "EXC:UnknownCall"
    except Exception as e:
        return "EXC:" + type(e).__name__


class CountingDict(dict):
    stats = {"hits": 0, "misses": 0, "evictions": 0}

    def __contains__(self, k):
        r = dict.__contains__(self, k)
        CountingDict.stats["hits" if r else "misses"] += 1
        return r

    def popitem(self):
        CountingDict.stats["evictions"] += 1
        return dict.popitem(self)


def install_cache_counters():
    """Replaces the dict of every spil.util.caching wrapper (closure cell) by a counting dict."""
    import sys
    import inspect
    n = 0
    for mname, mod in list(sys.modules.items()):
        if mod is None or not (mname.startswith("spil") or mname.startswith("hamlet")):
            continue
        for k, v in list(vars(mod).items()):
            objs = [v]
            if inspect.isclass(v):
                objs = list(vars(v).values())
            for o in objs:
                if inspect.isfunction(o) and o.__closure__ and hasattr(o, "cache_clear"):
                    for cell in o.__closure__:
                        try:
                            c = cell.cell_contents
                        except ValueError:
                            continue
                        if type(c) is dict:
                            cell.cell_contents = CountingDict(c)
                            n += 1
    return n


def resolva_stats():
    out = {}
    try:
        from resolva import Resolver
        for name in ("resolve_first", "resolve_one", "resolve_all"):
            ci = getattr(Resolver, name).cache_info()
            out[name] = {"hits": ci.hits, "misses": ci.misses, "size": ci.currsize, "max": ci.maxsize}
    except Exception as e:
        out["error"] = repr(e)
    return out
