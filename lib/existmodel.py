"""R7 — what exists, and what FindInAll must answer, for a universe of path-backed entities.

`exists[c]` : set of entity strings that exist in path configuration c (entities + ancestors having a path).
Levels that the LIVE configuration backs by a FindInConstants (read from conf.get_finder_for: public key, values,
parent_source) are answered as parent results x constants; every other level from the path-backed set.
The unfolded typed forms U(s) are the OBSERVED result of the real unfold_search (C07 judges that separately).
"""
from .refmodel import gmatch, seg_match, last_of


class AllModel:
    def __init__(self, model, exists, all_config=None, config_aware=False):
        from spil import conf, FindInConstants, FindInPaths
        from spil.sid.read import tools
        self.model = model
        self.exists = exists
        self.conf = conf
        self.FIC = FindInConstants
        self.FIP = FindInPaths
        self.tools = tools
        self.all_config = all_config
        self.config_aware = config_aware        # the data configuration dispatches on 'config' (lib/dataconf_variant.py)
        self.unbacked = set()

    def unfold(self, s):
        # (unfolded forms are typed, query-free searches - C07 judges that; a survivor that is not one denotes nothing)
        return [(x.type, str(x)) for x in self.tools.unfold_search(s) if x and "?" not in str(x)]

    def finder_for(self, tname, sstr):
        from spil import Sid
        return self.conf.get_finder_for(Sid(tname + ":" + sstr), self.all_config)

    # ---- star semantics (no '>') of one typed search on one finder
    def ans_finder(self, F, tname, sstr):
        if isinstance(F, self.FIC):
            t = self.model.by_name[tname]
            segs = sstr.split("/")
            if F.key not in t.keys:
                return set()
            idx = t.keys.index(F.key)
            if len(segs) != idx + 1:
                return set()      # (a search below its level is not a constants Finder's: nothing of its level matches it)
            rsegs = segs[:idx + 1]
            r = "/".join(rsegs)
            parent = "/".join(rsegs[:-1])
            # a literal value is one of the constants or nothing ("replacing a '*' by a literal value returns the subset having it")
            vals = [v for v in F.values if seg_match(rsegs[-1], v)] if "*" in rsegs[-1] else [v for v in F.values if v == rsegs[-1]]
            out = set()
            if len(rsegs) > 1 and F.parent_source is not None:
                # ... and only under a parent that the parent source finds (concrete or searched alike)
                parents = self.ans_find(F.parent_source, parent)
                if parents is None:
                    return None
                for p in parents:
                    for v in vals:
                        cand = p + "/" + v
                        if self.model.natural(cand) is not None:
                            out.add(cand)
            elif len(rsegs) > 1 and "*" in parent:
                return None
            else:
                for v in vals:
                    cand = (parent + "/" + v) if parent else v
                    if self.model.natural(cand) is not None:
                        out.add(cand)
            return out
        if isinstance(F, self.FIP):
            # the configurations used here create their path Finder without a name: it serves the DEFAULT path configuration
            # (not read from the live object: a Finder looking at another tree must not go unnoticed)
            cfg = (self.all_config if (self.config_aware and self.all_config) else None) or self.conf.default_path_config or F.config_name
            ex = self.exists.get(cfg, set())
            return {e for e in ex if gmatch(sstr, e) and self.model.natural(e).name == tname}
        return None

    def ans_find(self, F, s):
        out = set()
        for tname, sstr in self.unfold(s):
            a = self.ans_finder(F, tname, sstr.replace(">", "*"))
            if a is None:
                return None
            out |= a
        return out

    # ---- FindInAll
    def ans_all(self, s, star_only=True):
        out = set()
        for tname, sstr in self.unfold(s):
            F = self.finder_for(tname, sstr)
            if F is None:
                continue
            a = self.ans_finder(F, tname, sstr.replace(">", "*"))
            if a is None:
                return None
            out |= a
        return out

    def exists_all(self, e):
        """Is the concrete entity string e existing according to R7 ?"""
        t = self.model.natural(e)
        if t is None:
            return False
        a = self.ans_all(e)
        return a is not None and e in a
