"""Pristine fork server for C13.

A fresh interpreter that imports spil (import-time state only), never calls it, and for every request forks a child that
executes a list of calls and reports the canonical results.  Protocol: JSON lines on stdin / stdout.
request : {"calls": [spec, ...], "stats": bool}
response: {"results": [...], "stats": {...}}  or {"_failed": "..."}
"""
import json
import os
import sys


def main():
    verif = os.path.dirname(os.path.dirname(os.path.abspath(__file__)))
    sys.path.append(verif)
    real_out = sys.stdout
    sys.stdout = open(os.devnull, "w")
    opts = json.loads(sys.argv[1])
    import spil  # noqa
    try:
        import logging
        logging.getLogger("resolva").setLevel(logging.CRITICAL)
        from spil.util import log as slog
        slog.setLevel(100)
    except Exception:
        pass
    from spil.util import caching
    if opts.get("max_size"):
        caching._max_size = int(opts["max_size"])
    from lib import c13calls
    c13calls.CTX.update(opts.get("ctx", {}))
    ncaches = c13calls.install_cache_counters()
    real_out.write(json.dumps({"ready": True, "spil": spil.__file__, "caches_instrumented": ncaches}) + "\n")
    real_out.flush()
    for line in sys.stdin:
        line = line.strip()
        if not line:
            continue
        req = json.loads(line)
        if req.get("quit"):
            break
        r, w = os.pipe()
        pid = os.fork()
        if pid == 0:
            os.close(r)
            try:
                res = [c13calls.exec_call(c) for c in req["calls"]]
                out = {"results": res}
                if req.get("stats"):
                    out["stats"] = {"spil": dict(c13calls.CountingDict.stats), "resolva": c13calls.resolva_stats()}
                os.write(w, json.dumps(out, default=str).encode())
            except BaseException as e:
                try:
                    os.write(w, json.dumps({"_failed": "%s: %s" % (type(e).__name__, e)}).encode())
                except Exception:
                    pass
            finally:
                os._exit(0)
        os.close(w)
        chunks = []
        while True:
            b = os.read(r, 1 << 16)
            if not b:
                break
            chunks.append(b)
        os.close(r)
        os.waitpid(pid, 0)
        data = b"".join(chunks).decode() or json.dumps({"_failed": "child died without result"})
        real_out.write(data + "\n")
        real_out.flush()


if __name__ == "__main__":
    main()
