"""Parent-side: merge worker results, write evidence + replay files, print verdict lines."""
import json
import os
import time
from collections import Counter

from . import findings
from .snapshot import VERIF

# (VERIF_EVIDENCE_DIR: runs against seeded changes must not overwrite the evidence of the real tree)
EVID = os.environ.get("VERIF_EVIDENCE_DIR") or os.path.join(VERIF, "evidence")
REPLAYS = os.path.join(EVID, "replays")

EXIT_OK, EXIT_VIOLATION, EXIT_INCONCLUSIVE = 0, 1, 2


class Merged:
    def __init__(self):
        self.evaluations = 0
        self.nontrivial = set()
        self.counters = Counter()
        self.unlisted = []
        self.unlisted_n = 0
        self.known = {}
        self.known_n = Counter()
        self.samples = []
        self.unspecified = 0
        self.monitor = Counter()
        self.inconclusive = []
        self.extra = {}

    def add(self, res):
        if res is None:
            return
        if "_failed" in res:
            self.inconclusive.append("worker failed: " + str(res["_failed"])[-1500:])
            return
        self.evaluations += res.get("evaluations", 0)
        self.nontrivial.update(res.get("nontrivial", []))
        self.counters.update(res.get("counters", {}))
        self.unlisted.extend(res.get("unlisted", []))
        self.unlisted_n += res.get("unlisted_n", 0)
        for k, vs in res.get("known", {}).items():
            self.known.setdefault(k, []).extend(vs)
        self.known_n.update(res.get("known_n", {}))
        for s in res.get("samples", []):
            if len(self.samples) < 8:
                self.samples.append(s)
        self.unspecified += res.get("unspecified", 0)
        self.monitor.update(res.get("monitor", {}))
        self.inconclusive.extend(res.get("inconclusive", []))
        for k, v in res.get("extra", {}).items():
            self.extra.setdefault(k, []).append(v)


def merge(results):
    m = Merged()
    for r in results:
        m.add(r)
    return m


def validate_evidence(ev):
    """Minimal re-statement of EVIDENCE.schema.json for the levels we use."""
    for k in ("property_id", "tier", "seed", "level", "coverage", "wall_s"):
        assert k in ev, "missing " + k
    assert ev["tier"] in ("quick", "thorough")
    assert isinstance(ev["seed"], int)
    cov = ev["coverage"]
    if ev["level"] in ("exploration", "fault_enumeration"):
        assert isinstance(cov.get("evaluations"), int) and cov["evaluations"] >= 1
        assert isinstance(cov.get("distinct_nontrivial"), int) and cov["distinct_nontrivial"] >= 2
        assert isinstance(cov.get("rule"), str)
        assert isinstance(cov.get("samples"), list) and len(cov["samples"]) >= 1


def finish(prop, tier, seed, level, m, rule, t0, assumptions, floors=None, extra_cov=None, replay_mode=False):
    """Decides the verdict. floors: dict name -> (actual, minimum) ; unmet => inconclusive."""
    os.makedirs(REPLAYS, exist_ok=True)
    floors = floors or {}
    for name, (actual, minimum) in floors.items():
        if actual < minimum:
            m.inconclusive.append("floor not met: %s = %s < %s" % (name, actual, minimum))
    if m.evaluations < 1:
        m.inconclusive.append("nothing was evaluated")

    # known findings present in the file for this property
    known_entries = {k["classifier"]: k for k in findings.load_known(prop)}
    replay_paths = []
    # order so that every distinct kind is represented among the stored replays
    bykind = {}
    for v in m.unlisted:
        bykind.setdefault(v["kind"], []).append(v)
    ordered = []
    while any(bykind.values()):
        for k in sorted(bykind):
            if bykind[k]:
                ordered.append(bykind[k].pop(0))
    m.unlisted = ordered
    if os.environ.get("VERIF_DEBUG"):
        with open(os.environ["VERIF_DEBUG"], "w") as f:
            json.dump(m.unlisted, f, indent=1, default=str)
    for i, v in enumerate(m.unlisted[:25]):
        path = os.path.join(REPLAYS, "%s-%s-%d.json" % (prop, seed, i))
        with open(path, "w") as f:
            json.dump(v, f, indent=1, default=str)
        replay_paths.append(path)

    cov = {
        "evaluations": int(m.evaluations),
        "distinct_nontrivial": len(m.nontrivial),
        "rule": rule,
        "samples": m.samples[:8] or ["<none>"],
        "counters": dict(sorted(m.counters.items())),
        "monitor_evaluations": dict(sorted(m.monitor.items())),
        "unspecified_not_judged": int(m.unspecified),
        "known_findings_hit": dict(m.known_n),
        "inconclusive_reasons": m.inconclusive[:20],
    }
    cov["floors"] = {name: [actual, minimum] for name, (actual, minimum) in floors.items()}
    if extra_cov:
        cov.update(extra_cov)
    for k, v in m.extra.items():
        cov.setdefault("extra_" + k, v[:16])
    ev = {
        "property_id": prop,
        "tier": tier,
        "seed": int(seed),
        "level": level,
        "coverage": cov,
        "assumptions": assumptions,
        "wall_s": round(time.time() - t0, 2),
        "violations": int(m.unlisted_n),
    }
    if not replay_mode:
        try:
            validate_evidence(ev)
            ok_ev = True
        except AssertionError as e:
            ok_ev = False
            m.inconclusive.append("evidence not valid: %s" % e)
            cov["inconclusive_reasons"] = m.inconclusive[:20]
        with open(os.path.join(EVID, prop + ".json"), "w") as f:
            json.dump(ev, f, indent=1, default=str)

    for k, n in sorted(m.known_n.items()):
        what = known_entries.get(k, {}).get("what", k)
        print("KNOWN-FINDING: property=%s %s [classifier=%s, %d occurrences this run]" % (prop, what, k, n))
    print("%s tier=%s seed=%s evaluations=%d distinct_nontrivial=%d unspecified=%d known=%d violations=%d wall=%.1fs" % (
        prop, tier, seed, m.evaluations, len(m.nontrivial), m.unspecified, sum(m.known_n.values()), m.unlisted_n,
        time.time() - t0))
    if m.unlisted_n:
        kinds = Counter(v["kind"] for v in m.unlisted)
        print("violation kinds (stored sample): %s" % dict(kinds))
        for v, pth in list(zip(m.unlisted, replay_paths))[:5]:
            print("  e.g. [%s] %s :: %s" % (v["kind"], json.dumps(v["case"], default=str)[:300], v["detail"][:300]))
        print("VIOLATION property=%s replay=%s" % (prop, replay_paths[0] if replay_paths else "-"))
        return EXIT_VIOLATION
    if m.inconclusive:
        print("INCONCLUSIVE property=%s reason=%s" % (prop, " | ".join(m.inconclusive)[:2000]))
        return EXIT_INCONCLUSIVE
    return EXIT_OK
