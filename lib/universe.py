"""G5 — generated entity universes (sets of concrete Sid strings) and their list materialisations."""
from . import gen

# few names, sharing prefixes, with characters that sort below '/' ('-', '.', '+')
UNI_NAMES = ["a", "a-b", "a.b", "a+b", "ab", "b", "oph", "ophelia", "x_rig", "B", "rig", "cafe\u0301", "\U0001F600hero", "Ophelia", "\u212bngstrom",
             "sword2", "sword10", "sofa", "tiara", "a1", "a01", "tree{2}", "treee", "a{1,2}b"]       # (digit runs order differently as numbers and as strings)


def leaf_templates(model, vocab):
    out = []
    for t in model.templates:
        if not vocab.usable(t) or not t.simple:
            continue
        leaf = model.leaf_keys.get(model.basetype(t.name))
        if t.keys and t.keys[-1] == leaf:
            out.append(t)
    return out


def gen_universe(rng, model, vocab, n_leaves=40, names=None, all_levels=True):
    """Returns sorted list of concrete entity strings: leaves + (optionally) some deeper/shallower-only entities."""
    if not names:
        names = rng.sample(UNI_NAMES, rng.randint(3, 6))
        if rng.random() < 0.3:
            # two names whose digit runs order differently as numbers and as strings (the statement says: compared as strings)
            names = names[:3] + rng.choice([["sword2", "sword10"], ["a1", "a01", "a2"], ["v9", "v10"]])
    leaves = leaf_templates(model, vocab)
    ents = set()
    tries = 0
    while len(ents) < n_leaves and tries < n_leaves * 10:
        tries += 1
        t = rng.choice(leaves)
        s = vocab.valid_string(t, rng, pool=names, small=True)
        if model.natural(s) is None or model.is_search_string(s) or s.split("/")[-1] in model.alias:
            continue   # (alias names are not real extensions: an entity is never called 'maya')
        ents.add(s)
    if all_levels:
        # entities that stop at an intermediate level (a task without versions, ...)
        inter = [t for t in model.templates if vocab.usable(t) and t.simple and t not in leaves]
        for _ in range(rng.randint(0, max(1, n_leaves // 6))):
            t = rng.choice(inter)
            s = vocab.valid_string(t, rng, pool=names, small=True)
            if model.natural(s) is not None and not model.is_search_string(s) and s.split("/")[-1] not in model.alias:
                ents.add(s)
    return sorted(ents)


def with_ancestors(ents):
    out = set()
    for e in ents:
        parts = e.split("/")
        for i in range(1, len(parts) + 1):
            out.add("/".join(parts[:i]))
    return sorted(out)


def near_misses(rng, ents, k):
    out = []
    pool = list(ents)
    for _ in range(k):
        if not pool:
            break
        e = rng.choice(pool)
        segs = e.split("/")
        i = rng.randrange(len(segs))
        r = rng.random()
        if r < 0.12:
            out.append(e + rng.choice(["\n", "\n", " ", "\nzz", "\r\n"]))      # unstripped file lines
            continue
        if r < 0.3:
            segs[i] = segs[i] + rng.choice(["x", "_", "0", "-b"])
        elif r < 0.5:
            segs[i] = rng.choice(["zz", "yy", "junk", "v1", "A", "S"])
        elif r < 0.7:
            segs = segs + [rng.choice(["extra", "ma", "v001"])]
        elif r < 0.85:
            segs = segs[:-1] + [segs[-1].upper()]
        else:
            segs[i] = ""
        out.append("/".join(segs))
    return out


def list_variants(rng, model, ents):
    """Different list materialisations of the same universe: (name, list)."""
    full = with_ancestors(ents)
    v = []
    l1 = list(full)
    rng.shuffle(l1)
    v.append(("complete", l1))
    l2 = list(ents)
    rng.shuffle(l2)
    v.append(("leaf_only", l2))
    l3 = list(full) + near_misses(rng, full, max(3, len(full) // 8)) + ["", "bla", "bla/bla", "hamlet?x=y"]
    rng.shuffle(l3)
    v.append(("with_near_miss_and_untyped", l3))
    l4 = list(full) + rng.sample(full, min(len(full), 5))
    rng.shuffle(l4)
    v.append(("with_duplicates", l4))
    return v
