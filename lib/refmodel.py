"""Reference models R1 (template matcher), R2 (dict typing), R3 (query overlay), R5 (glob), R6 (last).

Written from the property statements; driven by the LIVE configuration (spil.conf), never by
hamlet literals.  Independent of resolva: templates are re-parsed here into per-segment
re.fullmatch matchers.
"""
import re

UNSPECIFIED = "UNSPECIFIED"


# ---------------------------------------------------------------------------------- template parse
def parse_template(tpl):
    """'{a}/{b:regex}/lit{c}' -> list of segments; segment = list of ('ph', key, regex|None) | ('lit', text)."""
    parts = []
    i, n = 0, len(tpl)
    cur = []
    lit = ""
    while i < n:
        c = tpl[i]
        if c == "{":
            # find the matching close brace; '\}' and '\{' are escapes inside the expression
            j = i + 1
            buf = ""
            while j < n:
                d = tpl[j]
                if d == "\\" and j + 1 < n and tpl[j + 1] in "{}":
                    buf += tpl[j + 1]
                    j += 2
                    continue
                if d == "}":
                    break
                buf += d
                j += 1
            if lit:
                cur.append(("lit", lit))
                lit = ""
            if ":" in buf:
                key, rx = buf.split(":", 1)
            else:
                key, rx = buf, None
            cur.append(("ph", key, rx))
            i = j + 1
        elif c == "/":
            if lit:
                cur.append(("lit", lit))
                lit = ""
            parts.append(cur)
            cur = []
            i += 1
        else:
            lit += c
            i += 1
    if lit:
        cur.append(("lit", lit))
    parts.append(cur)
    return parts


class Template:
    def __init__(self, name, tpl):
        self.name = name
        self.tpl = tpl
        self.segs = parse_template(tpl)
        self.keys = []
        self.simple = True
        self.seg_rx = []
        for seg in self.segs:
            phs = [p for p in seg if p[0] == "ph"]
            if len(seg) != 1 or len(phs) != 1:
                self.simple = False
            rx = ""
            for p in seg:
                if p[0] == "lit":
                    rx += re.escape(p[1])
                else:
                    self.keys.append(p[1])
                    rx += "(%s)" % (p[2] if p[2] is not None else "[^/]*")
            self.seg_rx.append(re.compile(rx))
        self.nseg = len(self.segs)

    def accepts_segments(self, segs):
        if len(segs) != self.nseg:
            return False
        for rx, s in zip(self.seg_rx, segs):
            if rx.fullmatch(s) is None:
                return False
        return True

    def accepts(self, s):
        return self.accepts_segments(s.split("/"))

    def fields(self, s):
        """Only for simple templates (one placeholder per segment)."""
        return dict(zip(self.keys, s.split("/")))

    def seg_pattern(self, i):
        seg = self.segs[i]
        return seg[0][2] if (len(seg) == 1 and seg[0][0] == "ph") else None


_WRITTEN = {}


def written_sid_conf():
    """The names of the Sid configuration module as its file defines them (not as the loader left them)."""
    if not _WRITTEN:
        try:
            import runpy
            import spil_sid_conf
            _WRITTEN.update(runpy.run_path(spil_sid_conf.__file__))
        except Exception:
            _WRITTEN["__failed__"] = True
    return _WRITTEN


class SidModel:
    """R1 + R2 over conf.sid_templates (after extrapolation and pattern replacing)."""

    def __init__(self, conf):
        self.conf = conf
        self.templates = [Template(k, v) for k, v in conf.sid_templates.items()]
        self.by_name = {t.name: t for t in self.templates}
        self.sep = conf.sidtype_keytype_sep
        self.search_symbols = list(conf.search_symbols)
        # the tables the loader only hands through are read from the configuration AS WRITTEN (the module's file executed again in
        # a namespace of its own), so that a loader that edits them does not take the oracle along
        written = written_sid_conf()
        self.leaf_keys = dict(written.get("leaf_keys", conf.leaf_keys))
        self.alias = {k: list(v) for k, v in written.get("extension_alias", conf.extension_alias).items()}
        self.narrow = dict(written.get("basetyped_search_narrowing", conf.basetyped_search_narrowing))
        self.max_len = max(t.nseg for t in self.templates)

    # R1
    def natural(self, s):
        if not s:
            return None
        segs = s.split("/")
        for t in self.templates:
            if t.accepts_segments(segs):
                return t
        return None

    def all_types(self, s):
        if not s:
            return []
        segs = s.split("/")
        return [t for t in self.templates if t.accepts_segments(segs)]

    def accepts(self, tname, s):
        t = self.by_name.get(tname)
        return bool(t and s and t.accepts(s))

    def basetype(self, tname):
        return tname.split(self.sep)[0]

    # R2
    def render(self, tname, fields):
        t = self.by_name[tname]
        return "/".join(str(fields[k]) for k in t.keys)

    def types_of(self, fields):
        """Types whose key set equals the dict's and whose template accepts the rendering."""
        out = []
        ks = set(fields.keys())
        for t in self.templates:
            if set(t.keys) != ks or len(t.keys) != len(ks):
                continue
            try:
                s = "/".join(str(fields[k]) for k in t.keys)
            except KeyError:
                continue
            # a value containing '/' changes the number of segments -> not accepted
            if t.accepts(s) and s:
                out.append(t.name)
        return out

    def is_search_string(self, s):
        return any(sym in s for sym in self.search_symbols)


# ---------------------------------------------------------------------------------- R3 query overlay
def parse_query(q):
    """Returns (pairs list, flags). Pairs left to right; blank values dropped; '?' == '&'."""
    q = q.replace("?", "&")
    if q.startswith("&"):
        q = q[1:]
    if q.endswith("&"):
        q = q[:-1]
    pairs = []
    flags = set()
    for chunk in q.split("&"):
        if not chunk:
            flags.add("empty_chunk")
            continue
        if "=" not in chunk:
            flags.add("no_equals")
            continue
        k, v = chunk.split("=", 1)
        # (an empty value is a value: 'k=' asks for k = '')
        if any(c in chunk for c in "%+;#"):
            flags.add("url_meta")
        pairs.append((k, v))
    keys = [k for k, _ in pairs]
    if len(set(keys)) != len(keys):
        flags.add("repeated_key")
    return pairs, flags


def overlay(fields, pairs):
    """'~' rule of C04. Returns (new fields, flags)."""
    out = dict(fields)
    flags = set()
    for k, v in pairs:
        optional = False
        if v.startswith("~"):
            optional = True
            v = v[1:]
            # (only the PREFIX is the option sign: '~a~b' stands for the optional value 'a~b')
            if v == "":
                flags.add("bare_tilde")
        # (a value that merely CONTAINS '~' is an ordinary value: only the prefix marks it optional)
        if optional and k not in out:
            continue
        out[k] = v
    return out, flags


# ---------------------------------------------------------------------------------- R5 glob
def seg_match(pat, text):
    """'*' matches any run of characters (segments never contain '/'); everything else literal.
    Own scanner, no `re`."""
    # classic iterative wildcard match
    p = t = 0
    star = -1
    mark = 0
    while t < len(text):
        if p < len(pat) and pat[p] == "*":
            star = p
            mark = t
            p += 1
        elif p < len(pat) and pat[p] == text[t]:
            p += 1
            t += 1
        elif star != -1:
            p = star + 1
            mark += 1
            t = mark
        else:
            return False
    while p < len(pat) and pat[p] == "*":
        p += 1
    return p == len(pat)


def gmatch(pattern, entry):
    ps = pattern.split("/")
    es = entry.split("/")
    if len(ps) != len(es):
        return False
    return all(seg_match(p, e) for p, e in zip(ps, es))


# ---------------------------------------------------------------------------------- R6 last
def last_of(matches, index):
    """One entry per distinct prefix of `index` segments: the one whose remaining segments are greatest
    compared segment by segment as strings."""
    best = {}
    for e in matches:
        segs = e.split("/")
        key = tuple(segs[:index])
        rest = tuple(segs[index:])
        if key not in best or rest > best[key][0]:
            best[key] = (rest, e)
    return {v[1] for v in best.values()}
