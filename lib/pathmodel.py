"""R8 — path conformance model + independent path renderer, per path configuration.

Reads only DATA from the live path configuration (templates after pattern replacing, mappings,
defaults); parsing, matching (with back-references for repeated placeholders, literals escaped)
and rendering are done here, independent of resolva and of spil's fs_resolver.
"""
import os
import re

from .refmodel import parse_template


class PathTemplate:
    def __init__(self, name, tpl):
        self.name = name
        self.tpl = tpl
        self.segs = parse_template(tpl)
        self.keys = []
        rx = []
        seen = set()
        for seg in self.segs:
            r = ""
            for p in seg:
                if p[0] == "lit":
                    r += re.escape(p[1])
                else:
                    k = p[1]
                    if k in seen:
                        r += "(?P=%s)" % k
                    else:
                        seen.add(k)
                        self.keys.append(k)
                        r += "(?P<%s>%s)" % (k, p[2] if p[2] is not None else "[^/]*")
            rx.append(r)
        self.regex = re.compile("/".join(rx))
        self.keyset = set(self.keys)

    def parse(self, path):
        m = self.regex.fullmatch(path)
        return m.groupdict() if m else None

    def render(self, values):
        out = []
        for seg in self.segs:
            s = ""
            for p in seg:
                s += p[1] if p[0] == "lit" else str(values[p[1]])
            out.append(s)
        return "/".join(out)


class PathModel:
    def __init__(self, config_name):
        from spil.sid.pathops.pathconfig import get_path_config
        pc = get_path_config(config_name)
        self.name = pc.name
        self.templates = {k: PathTemplate(k, v) for k, v in pc.path_templates.items()}
        self.mapping = {k: dict(v) for k, v in pc.path_mapping.items() if isinstance(k, str)}
        self.typed_mapping = {k: dict(v) for k, v in pc.path_mapping.items() if not isinstance(k, str)}
        self.defaults = dict(pc.path_defaults)
        self.has_extra = bool(pc.sidkeys_to_extrakeys or pc.extrakeys_to_sidkeys)
        lits = []
        for t in pc.path_templates.values():
            lits.append(t.split("{")[0])
        pref = os.path.commonprefix(lits)
        self.root = pref[:pref.rfind("/") + 1] if "/" in pref else pref

    def conforming(self, path):
        """Template names for which a CONSISTENT parse of the whole path exists."""
        return [n for n, t in self.templates.items() if t.parse(path) is not None]

    def to_path_value(self, key, value, tname=None):
        m = self.mapping.get(key)
        if m:
            for pv, sv in m.items():
                if sv == value:
                    return pv
        return value

    def render(self, tname, fields):
        """fields: sid-side values. Returns the path string, or None when the type has no path template."""
        t = self.templates.get(tname)
        if t is None or self.has_extra:
            return None
        vals = {}
        for k in t.keys:
            if k in fields and fields[k] not in (None, ""):
                vals[k] = self.to_path_value(k, fields[k], tname)
            elif k in self.defaults:
                vals[k] = self.defaults[k]
            elif k in fields:
                vals[k] = ""         # an empty value is a value (representable inside a file name)
            else:
                return None
        out = t.render(vals)
        if t.parse(out) is None:
            return None          # a value outside this configuration's vocabulary: the Sid has no path here
        for seg in t.segs:
            if len(seg) == 1 and seg[0][0] == "ph" and str(vals[seg[0][1]]) in ("", ".", ".."):
                return None      # an empty, "." or ".." VALUE cannot be a folder name: no path represents this Sid
        return out               # (the literal parts - e.g. a root folder spelled with '..' - are the configuration's business)

    def rel(self, path):
        p = str(path).replace(os.sep, "/")
        return p[len(self.root):] if p.startswith(self.root) else None
