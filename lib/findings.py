"""Known findings: /verif/KNOWN_FINDINGS.txt (committed, never written at run time).

Line formats:
  known: property=<id> classifier=<name> <what fails>
  fixed: property=<id> <commit> <what failed>
`known` lines suppress (as KNOWN-FINDING) exactly the violations matched by the named mechanism
classifier below; `fixed` lines suppress nothing.  Classifiers are predicates over the violation
witness (its kind and the concrete case), never hashes or random values.
"""
import os
import re

VERIF = os.path.dirname(os.path.dirname(os.path.abspath(__file__)))
FILE = os.path.join(VERIF, "KNOWN_FINDINGS.txt")

_known_re = re.compile(r"^known:\s+property=(\S+)\s+classifier=(\S+)\s+(.*)$")
_fixed_re = re.compile(r"^fixed:\s+property=(\S+)\s+(\S+)\s+(.*)$")


def load_all():
    known, fixed = [], []
    if not os.path.exists(FILE):
        return known, fixed
    with open(FILE) as f:
        for line in f:
            line = line.rstrip("\n")
            m = _known_re.match(line)
            if m:
                known.append({"property": m.group(1), "classifier": m.group(2), "what": m.group(3)})
                continue
            m = _fixed_re.match(line)
            if m:
                fixed.append({"property": m.group(1), "commit": m.group(2), "what": m.group(3)})
    return known, fixed


EXTRA_PROPS = []      # (the C20 worker re-runs other properties' workers: C20's own listed findings apply to them as well)


def load_known(prop):
    return [k for k in load_all()[0] if k["property"] == prop or k["property"] in EXTRA_PROPS]


# ----------------------------------------------------------------------------------------------
# mechanism classifiers: name -> predicate(violation dict) -> bool
# ----------------------------------------------------------------------------------------------

def _case(v):
    return v.get("case") or {}


def c_trailing_newline_sid(v):
    """Sid string whose LAST segment is a closed-pattern value followed by exactly one '\\n':
    resolva anchors with '$', which also matches before a trailing newline."""
    c = _case(v)
    s = c.get("base") or c.get("s")      # (base: the string before a query tail)
    return (isinstance(s, str) and s.endswith("\n") and not s.endswith("\n\n")
            and v.get("kind", "").split(":")[-1] in ("typed_but_oracle_untyped", "typed_differently", "inconsistent_typed")
            and c.get("got_type") and c.get("got_type") == c.get("type_without_trailing_nl"))


def c_trailing_newline_nav(v):
    """Navigation of a Sid that was typed only because '$' matched before its trailing newline."""
    c = _case(v)
    s = c.get("s")
    return (isinstance(s, str) and s.endswith("\n") and not s.endswith("\n\n")
            and c.get("got_type") and c.get("got_type") == c.get("type_without_trailing_nl"))


def c_trailing_newline_path(v):
    p = _case(v).get("path")
    return isinstance(p, str) and p.endswith("\n") and not p.endswith("\n\n")


def c_glob_charclass(v):
    """'[' ... ']' in a literal search value is read as a character class by glob2re / glob.glob."""
    c = _case(v)
    s = c.get("search") or ""
    return (v.get("kind", "").split(":")[-1] in ("find_set_differs", "match_differs")
            and "[" in s and "]" in s[s.index("["):])


def c_hidden_name_not_globbed(v):
    """An existing entity whose name starts with '.' is not returned by a '*' search of FindInPaths (glob skips dot names);
    concrete and '.x*' searches do find it."""
    c = _case(v)
    sid = c.get("sid") or ""
    d = v.get("detail", "")
    return (v.get("kind", "").split(":")[-1] == "search_vs_existence" and sid.split("/")[-1].startswith(".")
            and sid.split("/")[-1] not in (".", "..") and d.startswith("in find(") and d.endswith("/*): False, model exists: True"))


def c_resolva_repeated_placeholder(v):
    """Third-party resolva checks a placeholder that a path template repeats (folder + file name) only AFTER its first regex match
    and then raises instead of trying the consistent reading. It shows when a closed vocabulary holds 'x' and 'x<sep>big' (listed
    after it) and the file name joins its fields by <sep>: path() of such a Sid raises ResolvaException('Different extracted values
    for placeholder ...'), and FindInPaths, which skips paths it cannot resolve, does not return the entities carrying the long value."""
    import ast
    import re as _re
    c = _case(v)
    d = v.get("detail", "")
    if "Different extracted values for placeholder" in d:
        return True
    import os
    p = c.get("conf_params") or {}
    sep = p.get("sep", "_") if p.get("prefix_vocab") else os.environ.get("VERIF_PREFIX_VOCAB_SEP")     # (set by the C20 worker)
    if not sep:
        return False
    tail = sep + "big"
    kind = v.get("kind", "").split(":")[-1]
    pats = {"paths_vs_expected": (r"missing=(\[.*?\]) extra=(\[.*?\])$", 0, 1),
            "FindInAll_vs_R7": (r"missing=(\[.*?\]) extra=(\[.*?\])$", 0, 1),
            "FindInAll_config_vs_R7": (r"missing=(\[.*?\]) extra=(\[.*?\])$", 0, 1),
            "list_vs_paths": (r"list only=(\[.*?\]) paths only=(\[.*?\])$", 0, 1)}
    if kind not in pats:
        return False
    m = _re.search(pats[kind][0], d)
    if not m:
        return False
    try:
        lost, other = ast.literal_eval(m.group(1)), ast.literal_eval(m.group(2))
    except Exception:
        return False
    return bool(lost) and not other and all(any(seg.endswith(tail) for seg in e.split("/")) for e in lost)


CLASSIFIERS = {
    "trailing_newline_sid": c_trailing_newline_sid,
    "trailing_newline_path": c_trailing_newline_path,
    "trailing_newline_nav": c_trailing_newline_nav,
    "glob_charclass": c_glob_charclass,
    "hidden_name_not_globbed": c_hidden_name_not_globbed,
    "resolva_repeated_placeholder": c_resolva_repeated_placeholder,
}


def classify(v, known_entries):
    for k in known_entries:
        fn = CLASSIFIERS.get(k["classifier"])
        if fn is None:
            continue
        try:
            if fn(v):
                return k["classifier"]
        except Exception:
            continue
    return None
