"""Sharded subprocess workers (subprocess + timeout; never multiprocessing.Pool)."""
import json
import os
import subprocess
import sys
import tempfile
import time
from concurrent.futures import ThreadPoolExecutor

from .snapshot import PYTHON, VERIF

WORKER_MAIN = os.path.join(VERIF, "lib", "worker_main.py")


class WorkerFailure(Exception):
    pass


def run_one(snap, module, args, env, timeout):
    """Runs checks.<module>.worker(args) in a fresh interpreter on the snapshot. Returns dict."""
    fd, argf = tempfile.mkstemp(prefix="args_", suffix=".json", dir=snap.root)
    os.close(fd)
    outf = argf.replace("args_", "out_")
    with open(argf, "w") as f:
        json.dump(args, f)
    t0 = time.time()
    try:
        p = subprocess.run([PYTHON, WORKER_MAIN, module, argf, outf], env=env, cwd=snap.root,
                           stdout=subprocess.PIPE, stderr=subprocess.PIPE, timeout=timeout)
    except subprocess.TimeoutExpired:
        return {"_failed": "timeout after %ss" % timeout, "_args": args}
    if p.returncode != 0 or not os.path.exists(outf):
        return {"_failed": "exit %s: %s" % (p.returncode, p.stderr.decode("utf8", "replace")[-3000:]),
                "_args": args}
    with open(outf) as f:
        res = json.load(f)
    res["_wall"] = time.time() - t0
    try:
        os.unlink(argf)
        os.unlink(outf)
    except OSError:
        pass
    return res


def run_shards(snap, module, shard_args, envs=None, timeout=1800, max_workers=None):
    """shard_args: list of dicts; envs: list of env dicts (or one env). Returns list of results."""
    n = len(shard_args)
    if envs is None:
        envs = snap.env()
    if isinstance(envs, dict):
        envs = [envs] * n
    # string-hash diversity: shard i runs under PYTHONHASHSEED=i unless the check chose a seed itself (set / dict-of-str
    # iteration order inside the library must not matter to any oracle; a violation records the seed it was seen under)
    envs = [dict(e, PYTHONHASHSEED=str(i % 16)) if e.get("PYTHONHASHSEED") == "0" and not os.environ.get("VERIF_FIXED_HASHSEED") else e
            for i, e in enumerate(envs)]
    max_workers = max_workers or min(n, os.cpu_count() or 4)
    with ThreadPoolExecutor(max_workers=max_workers) as ex:
        futs = [ex.submit(run_one, snap, module, a, e, timeout) for a, e in zip(shard_args, envs)]
        return [f.result() for f in futs]
