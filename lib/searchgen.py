"""G4 — search expressions built from valid Sid strings (configuration-driven)."""
from . import gen


def make_search(rng, model, vocab, t, pool=None, small=False, allow_last=True, allow_dstar=True, allow_filter=True,
                allow_malformed=True, allow_partial=True, p_star=0.28, base_segs=None):
    """Returns (search string, info dict)."""
    segs = list(base_segs) if base_segs else vocab.valid_segments(t, rng, pool=pool or gen.SAFE_NAME_POOL, small=small)
    info = {"type": t.name, "base": "/".join(segs), "ops": []}
    n = len(segs)
    aliases = list(model.alias)
    for i in range(n):
        syms = vocab.search_symbols_at(t, i)
        r = rng.random()
        if r < p_star and "*" in syms:
            segs[i] = "*"
            info["ops"].append("star")
        elif r < p_star + 0.07 and allow_last and ">" in syms:
            segs[i] = ">"
            info["ops"].append("last")
        elif r < p_star + 0.15:
            k = rng.randint(2, 3)
            alts = [segs[i]] + [vocab.value(t, i, rng, pool=pool or gen.SAFE_NAME_POOL, small=small) for _ in range(k - 1)]
            if rng.random() < 0.15:
                alts.append(rng.choice(["zz", "*"]))
            if rng.random() < 0.08:
                alts += ["zz", "yy"]          # two untypable alternatives (adjacent after sorting)
            if i == n - 1 and aliases and rng.random() < 0.3:
                alts.append(rng.choice(aliases))
            rng.shuffle(alts)
            # (blanks next to the or-sign belong to the sign, not to the alternatives)
            segs[i] = rng.choice([",", ",", ",", ",", ", ", " ,"]).join(alts)
            info["ops"].append("comma")
        elif r < p_star + 0.18 and allow_partial and vocab.info[t.name][i]["open"] and segs[i]:
            v = segs[i]
            cands = [v[:1] + "*", "*" + v[-1:], v[:1] + "*" + v[-1:], "*" + v[1:2] + "*",
                     # several '*' and a fixed end: a middle piece may only be found BEFORE the end it must leave room for
                     "*" + v[-1:] + "*" + v[-1:], "*" + v[-2:-1] + "*" + v[-1:], v[:1] + "*" + v[-1:] + "*" + v[-1:]]
            # (never two adjacent '*': '**' is another operator, and only as a whole segment)
            segs[i] = rng.choice([c for c in cands if "**" not in c] or [v[:1] + "*"])
            info["ops"].append("partial")
    # alias in the last segment
    if aliases and rng.random() < 0.2:
        cand = [a for a in aliases if t.seg_rx[-1].fullmatch(a) or any(t.seg_rx[-1].fullmatch(m) for m in model.alias[a])]
        if cand:
            segs[-1] = rng.choice(cand)
            info["ops"].append("alias")
    # '**'
    if allow_dstar and n >= 2 and rng.random() < 0.33:
        i = rng.randint(1, n - 1)
        j = rng.randint(i, n)
        if rng.random() < 0.5:
            j = n if rng.random() < 0.5 else j
        collapsed = list(zip(t.keys[i:j], segs[i:j]))
        segs[i:j] = ["**"]
        info["ops"].append("dstar")
        info["collapsed"] = collapsed
        if allow_malformed and rng.random() < 0.04 and len(segs) > 3:
            segs.insert(rng.randint(1, len(segs) - 1), "**")
            info["ops"].append("dstar2")
    s = "/".join(segs)
    # filters
    if allow_filter and info.get("collapsed") and rng.random() < 0.12:
        # a filter on a key that the '**' swallowed (its value overlays whatever the expansion puts there)
        k, v = rng.choice(info["collapsed"])
        if v and not any(ch in v for ch in "*>,%+;#~ &=?"):
            s += "?%s=%s" % (k, v)
            info["ops"].append("filter_on_collapsed_key")
            return s, info
    if allow_filter and rng.random() < 0.4:
        fl = []
        for _ in range(rng.choice([1, 1, 2])):
            r = rng.random()
            base = model.basetype(t.name)
            same_base = [u for u in model.templates if model.basetype(u.name) == base and vocab.usable(u)]
            longest = max(same_base, key=lambda u: u.nseg)
            if r < 0.45:      # a key of (some type of) the hierarchy, valid value
                u = rng.choice(same_base)
                i = rng.randrange(u.nseg)
                k = u.keys[i]
                v = vocab.value(u, i, rng, pool=pool or gen.SAFE_NAME_POOL, small=small)
                if rng.random() < 0.25 and vocab.search_symbols_at(u, i):
                    v = rng.choice(vocab.search_symbols_at(u, i) if allow_last else ["*"])
            elif r < 0.6:     # comma valued
                u = rng.choice(same_base)
                i = rng.randrange(u.nseg)
                k = u.keys[i]
                v = ",".join(vocab.value(u, i, rng, pool=pool or gen.SAFE_NAME_POOL, small=small) for _ in range(2))
            elif r < 0.72 and aliases:   # alias in the leaf-key filter
                k = model.leaf_keys.get(base) or "ext"
                v = rng.choice(aliases)
            elif r < 0.85:    # foreign key
                others = [u for u in model.templates if model.basetype(u.name) != base and vocab.usable(u)]
                if others:
                    u = rng.choice(others)
                    i = rng.randrange(u.nseg)
                    k, v = u.keys[i], vocab.value(u, i, rng, pool=pool or gen.SAFE_NAME_POOL, small=small)
                else:
                    k, v = "foo", "bar"
            elif r < 0.92:
                k, v = rng.choice(longest.keys), rng.choice(["zz", "fuzz", "v1"])
            else:
                k, v = rng.choice(longest.keys), "~" + rng.choice(["a", "s", "*"])
            fl.append("%s=%s" % (k, v))
        s += "?" + ("?" if (len(fl) > 1 and rng.random() < 0.3) else "&").join(fl)
        info["ops"].append("filter")
    if allow_malformed and rng.random() < 0.05:
        m = rng.random()
        if m < 0.2:
            s = s.replace("/", "//", 1)
        elif m < 0.4:
            s = "**/" + s
        elif m < 0.55:
            s = s + "/"
        elif m < 0.7:
            s = s.replace("*", "**x", 1)
        elif m < 0.85:
            s = "bla" + ("?foo=bar" if rng.random() < 0.5 else "/**")
        else:
            s = s + "?" + rng.choice(["", "foo", "=", "a=", "&&"])
        info["ops"].append("malformed")
    return s, info
