"""Extra workload: the repository's own test suite executed IN the worker process, under the installed monitors
(DESIGN section 4). The monitors judge every event the tests produce; the tests' own verdicts are only counted."""
import io
import os
import sys


def run_repo_tests(rec, extra_args=None):
    import pytest
    repo = os.environ.get("VERIF_SNAP_REPO")
    if not repo or not os.path.isdir(repo):
        rec.inconclusive.append("suite shard: snapshot repo not found")
        return
    cwd = os.getcwd()
    out, err = sys.stdout, sys.stderr
    sys.stdout = io.StringIO()
    sys.stderr = io.StringIO()
    try:
        os.chdir(repo)
        rc = pytest.main(["-q", "-p", "no:cacheprovider", "--timeout=900", "--continue-on-collection-errors"] + (extra_args or []))
        text = sys.stdout.getvalue()
    finally:
        os.chdir(cwd)
        sys.stdout, sys.stderr = out, err
    import re
    m = re.search(r"(\d+) passed", text)
    f = re.search(r"(\d+) failed", text)
    rec.count("suite_tests_passed", int(m.group(1)) if m else 0)
    rec.count("suite_tests_failed", int(f.group(1)) if f else 0)
    rec.count("suite_shards")
    rec.ev()
