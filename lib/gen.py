"""Seeded, configuration-driven generators (G1 strings, G2 typed sids, G3 queries, G4 searches)."""
import random

NAME_POOL = [
    "ophelia", "claudius", "x", "dagger", "oph-elia", "a.b", "c+d", "o'neil", "two words", "ünï",
    "x_rig_WORK", "v001", "sq010", "sh0010", "ma", "char", "s", "a", "A", "hamlet", "node1", "Ophelia",
    "a-b", "a_b", "0", "w", "model",
    "caf\udce9",                 # a lone surrogate: what os.listdir / os.fsdecode give for a file name that is not valid UTF-8
    "cafe\u0301", "\u212bngstrom", "\U00020bb7\u91ce", "{x}", "{}", "a}b", "{0}",       # non-NFC, non-BMP; braces (str.format syntax)
]
SAFE_NAME_POOL = ["ophelia", "claudius", "x", "dagger", "oph-elia", "a.b", "c+d", "a-b", "yorick", "skull", "b", "node1",
                  "cafe\u0301", "Laertes", "\U00020bb7\u91ce",
                  "--start--", "x--start--",        # (text that looks like an internal marker is still a name)
                  "constable", "nul", "aux.v2", "Thumbs.db", "lost+found", "@eaDir"]     # (so are names another operating system reserves)
JUNK_SEGMENTS = ["", " ", "junk", "JUNK", "v1", "v0001", "sq1", "sh10", "hamlet ", " hamlet", "Hamlet", "hamle", "hamlett",
                 "a ", "as", "а", "w p", "wp", "ma.", ".ma", "m", "**", "*,*", "<", ">>", "*x", "x*", "a,s", "ma,mb",
                 "\t", "\n", "a\n", "\nhamlet", "ham\0let", "x" * 300, "v١٢٣", "{project}", "(a)", "a|s", ".*", "[^/]*",
                 "%20", "#", "&", "="]


def parse_alternatives(rx):
    """'(a|b|v\\d\\d\\d|\\*|\\>)' -> list of alternatives, each a list of tokens ('lit', c) | ('digit',) ; or None if opaque."""
    if rx is None:
        return None
    s = rx
    if s.startswith("(") and s.endswith(")"):
        # outer group wraps everything?
        depth = 0
        wraps = True
        for i, c in enumerate(s):
            if c == "\\":
                continue
            if c == "(" and (i == 0 or s[i - 1] != "\\"):
                depth += 1
            elif c == ")" and s[i - 1] != "\\":
                depth -= 1
                if depth == 0 and i != len(s) - 1:
                    wraps = False
                    break
        if wraps:
            s = s[1:-1]
            if s.startswith("?:"):
                s = s[2:]
    alts = []
    cur = []
    i = 0
    while i < len(s):
        c = s[i]
        if c == "\\":
            if i + 1 >= len(s):
                return None
            d = s[i + 1]
            if d == "d":
                cur.append(("digit",))
            elif d.isalnum():
                return None  # \w \s ... opaque
            else:
                cur.append(("lit", d))
            i += 2
            continue
        if c == "|":
            alts.append(cur)
            cur = []
            i += 1
            continue
        if c in "()[]{}*+?.^$":
            return None
        cur.append(("lit", c))
        i += 1
    alts.append(cur)
    return alts


class Vocab:
    """Per template and segment: closed literal values, digit forms, or open."""

    def __init__(self, model):
        self.model = model
        self.info = {}
        for t in model.templates:
            segs = []
            for i in range(t.nseg):
                pat = t.seg_pattern(i)
                alts = parse_alternatives(pat) if pat is not None else None
                if pat is None and t.simple:
                    segs.append({"open": True, "lits": [], "digits": [], "search": ["*", ">"]})
                    continue
                if alts is None:
                    segs.append({"open": False, "lits": [], "digits": [], "search": [], "opaque": True})
                    continue
                lits, digits, search = [], [], []
                for a in alts:
                    if all(tok[0] == "lit" for tok in a):
                        v = "".join(tok[1] for tok in a)
                        if v in ("*", ">", "<", "**"):
                            search.append(v)
                        else:
                            lits.append(v)
                    else:
                        digits.append(a)
                segs.append({"open": False, "lits": lits, "digits": digits, "search": search})
            self.info[t.name] = segs

    def usable(self, t):
        return all(not s.get("opaque") for s in self.info[t.name])

    @staticmethod
    def _digits(form, rng, mode="rand"):
        out = ""
        for tok in form:
            if tok[0] == "lit":
                out += tok[1]
            else:
                out += rng.choice("0123456789") if mode == "rand" else mode
        return out

    def value(self, t, i, rng, pool=None, small=False):
        info = self.info[t.name][i]
        if info["open"]:
            return rng.choice(pool or NAME_POOL)
        choices = []
        if info["lits"]:
            choices.append("lit")
        if info["digits"]:
            choices.append("dig")
        if not choices:
            return "*"
        c = rng.choice(choices)
        if c == "lit":
            return rng.choice(info["lits"])
        form = rng.choice(info["digits"])
        if small:
            # few distinct values so that universes collide
            v = self._digits(form, rng, mode="0")
            k = rng.choice([1, 2, 3, 10, 20])
            sk = str(k)
            nd = sum(1 for tok in form if tok[0] == "digit")
            if len(sk) <= nd:
                digs = sk.rjust(nd, "0")
                out, di = "", 0
                for tok in form:
                    if tok[0] == "lit":
                        out += tok[1]
                    else:
                        out += digs[di]
                        di += 1
                return out
            return v
        return self._digits(form, rng)

    def search_symbols_at(self, t, i):
        return self.info[t.name][i]["search"]

    def valid_segments(self, t, rng, pool=None, small=False):
        return [self.value(t, i, rng, pool=pool, small=small) for i in range(t.nseg)]

    def valid_string(self, t, rng, pool=None, small=False):
        return "/".join(self.valid_segments(t, rng, pool=pool, small=small))

    def search_string(self, t, rng, pool=None, p_sym=0.4, small=False):
        segs = self.valid_segments(t, rng, pool=pool, small=small)
        mask = []
        for i in range(t.nseg):
            syms = self.search_symbols_at(t, i)
            if syms and rng.random() < p_sym:
                segs[i] = rng.choice(syms)
                mask.append(i)
        return "/".join(segs), mask


def all_values_of_other_levels(vocab, rng):
    vals = []
    for name, segs in vocab.info.items():
        for s in segs:
            vals.extend(s["lits"])
    return sorted(set(vals))


def mutate_string(s, rng, vocab, lits):
    """Returns (mutant, class name)."""
    segs = s.split("/")
    r = rng.random()
    i = rng.randrange(len(segs))
    if r < 0.16:
        segs[i] = rng.choice(JUNK_SEGMENTS)
        return "/".join(segs), "near_junk"
    if r < 0.30:
        segs[i] = rng.choice(lits) if lits else "zz"
        return "/".join(segs), "near_other_level"
    if r < 0.38:
        v = segs[i]
        segs[i] = v.upper() if v != v.upper() else v.lower()
        return "/".join(segs), "near_case"
    if r < 0.46:
        segs[i] = rng.choice(["x", " ", "_", "0"]) + segs[i] if rng.random() < 0.5 else segs[i] + rng.choice(["x", " ", "_", "0", "\n", "\r", "\t", "\0"])
        return "/".join(segs), "near_affix"
    if r < 0.54:
        k = rng.randint(1, 4)
        extra = [rng.choice(NAME_POOL + ["*", ">"]) for _ in range(k)]
        return "/".join(segs + extra), "plus_segments"
    if r < 0.60:
        k = rng.randint(1, min(3, len(segs)))
        return "/".join(segs[:-k]), "minus_segments"
    if r < 0.66:
        segs[i] = ""
        return "/".join(segs), "empty_segment"
    if r < 0.70:
        return rng.choice(["/", ""]) + "/".join(segs) + rng.choice(["/", "", "//"]), "edge_slash"
    if r < 0.80:
        segs[i] = rng.choice(["*", ">", "**", "<", "*,*", "a,b", segs[i] + ",x", "*" + segs[i][:1], segs[i][:1] + "*"])
        return "/".join(segs), "search_symbol"
    if r < 0.86:
        j = rng.randrange(len(s) + 1)
        return s[:j] + rng.choice(["\n", "\r", "\t", "\0", " "]) + s[j:], "control_char"
    if r < 0.90:
        del segs[i]
        return "/".join(segs), "drop_segment"
    if r < 0.94:
        segs.insert(i, segs[i])
        return "/".join(segs), "dup_segment"
    rng.shuffle(segs)
    return "/".join(segs), "shuffle"


def uri_prefix(s, tname, rng, model):
    names = [t.name for t in model.templates]
    r = rng.random()
    if r < 0.35:
        return tname + ":" + s, "uri_right"
    if r < 0.55:
        same = [t.name for t in model.templates if t.nseg == len(s.split("/")) and t.name != tname]
        return (rng.choice(same) if same else rng.choice(names)) + ":" + s, "uri_other_same_len"
    if r < 0.70:
        return rng.choice(names) + ":" + s, "uri_any"
    if r < 0.80:
        return rng.choice(["foo", "Asset", "asset ", " asset", "asset__", "__file", "project\n"]) + ":" + s, "uri_unknown"
    if r < 0.86:
        return ":" + s, "uri_empty"
    k = rng.randint(2, 4)
    parts = [rng.choice(names + ["foo", ""]) for _ in range(k)]
    return ":".join(parts) + ":" + s, "uri_multi_colon"
