"""Snapshot of /repo's working tree + environment for worker processes.

Every check copies the *current working tree* of /repo (not HEAD) into a fresh
temp dir, runs the real code from there and removes the dir at exit.  The demo
path configuration roots its trees at Path(__file__).parent/data/testing/..., so a
private copy of spil_hamlet_conf gives a worker private LOCAL / SERVER roots.
"""
import atexit
import os
import shutil
import subprocess
import tempfile

REPO = os.environ.get("VERIF_REPO", "/repo")
VERIF = os.path.dirname(os.path.dirname(os.path.abspath(__file__)))
PYTHON = os.environ.get("VERIF_PYTHON", "/venv/bin/python")


def _tmp_base():
    for d in ("/dev/shm", tempfile.gettempdir()):
        if os.path.isdir(d) and os.access(d, os.W_OK):
            return d
    return None


class Snapshot:
    def __init__(self, keep=False):
        self.root = tempfile.mkdtemp(prefix="spilverif_", dir=_tmp_base())
        if not keep:
            atexit.register(self.cleanup)
        self.repo = os.path.join(self.root, "repo")
        os.makedirs(self.repo)
        subprocess.run(
            ["rsync", "-a", "--exclude", ".git", "--exclude", "__pycache__",
             "--exclude", "data/testing/SPIL_PROJECTS", "--exclude", ".pytest_cache",
             REPO.rstrip("/") + "/", self.repo + "/"],
            check=True)
        self.home = os.path.join(self.root, "home")
        os.makedirs(self.home)
        self._n = 0

    def cleanup(self):
        shutil.rmtree(self.root, ignore_errors=True)

    def conf_copy(self, tag=None):
        """Private copy of spil_hamlet_conf (=> private LOCAL/SERVER roots). Returns its dir."""
        self._n += 1
        d = os.path.join(self.root, "conf_%s" % (tag if tag is not None else self._n))
        if not os.path.isdir(d):
            shutil.copytree(os.path.join(self.repo, "spil_hamlet_conf"), os.path.join(d, "spil_hamlet_conf"))
        return os.path.join(d, "spil_hamlet_conf")

    def env(self, conf_dir=None, hashseed=0, extra=None, conf_first=None):
        """Environment for a worker. conf_first: extra dir(s) put before everything (generated conf)."""
        conf_dir = conf_dir or os.path.join(self.repo, "spil_hamlet_conf")
        pp = []
        if conf_first:
            pp.extend(conf_first if isinstance(conf_first, (list, tuple)) else [conf_first])
        pp += [self.repo, conf_dir, VERIF]
        env = {
            "PATH": os.environ.get("PATH", "/usr/bin:/bin"),
            "PYTHONPATH": os.pathsep.join(pp),
            "HOME": self.home,
            "PYTHONDONTWRITEBYTECODE": "1",
            "PYTHONHASHSEED": str(hashseed),
            "SPIL_VERIF": "1",
            "VERIF_SNAP_REPO": self.repo,
            "VERIF_CONF_DIR": conf_dir,
            "VERIF_WATCHDOG": os.environ.get("VERIF_WATCHDOG", "0"),
            "LANG": "C.UTF-8",
            "LC_ALL": "C.UTF-8",
        }
        if extra:
            env.update({k: str(v) for k, v in extra.items()})
        return env
