"""Monitors installed in the worker process on the REAL functions of the snapshot's spil.

wrap(module, name, on_call): replaces module.name by a recording wrapper and re-binds every alias
(`from m import f` copies) in loaded spil* / *_conf / hamlet_* modules whose value *is* the original.
"""
import functools
import inspect
import sys

_PREFIXES = ("spil", "hamlet_", "spil_")


def _spil_modules():
    for name, mod in list(sys.modules.items()):
        if mod is None:
            continue
        if name.startswith(_PREFIXES) or name.endswith("_conf"):
            yield name, mod


def rebind_aliases(original, replacement):
    n = 0
    for name, mod in _spil_modules():
        try:
            items = list(vars(mod).items())
        except TypeError:
            continue
        for k, v in items:
            if v is original:
                setattr(mod, k, replacement)
                n += 1
    return n


def wrap_function(module, name, after, before=None):
    """after(args, kwargs, result, exc, token) is called at exit (result or exc set).
    before(args, kwargs) -> token (optional) is called at entry."""
    orig = getattr(module, name)

    @functools.wraps(orig)
    def wrapper(*args, **kwargs):
        token = before(args, kwargs) if before else None
        try:
            res = orig(*args, **kwargs)
        except BaseException as e:
            after(args, kwargs, None, e, token)
            raise
        after(args, kwargs, res, None, token)
        return res

    wrapper.__verif_orig__ = orig
    for attr in ("cache_clear", "cache_info"):
        if hasattr(orig, attr):
            setattr(wrapper, attr, getattr(orig, attr))
    setattr(module, name, wrapper)
    rebind_aliases(orig, wrapper)
    return orig, wrapper


def wrap_method(cls, name, after, before=None):
    orig = cls.__dict__[name]
    if isinstance(orig, property):
        raise TypeError("use wrap_property")

    @functools.wraps(orig)
    def wrapper(self, *args, **kwargs):
        token = before(self, args, kwargs) if before else None
        try:
            res = orig(self, *args, **kwargs)
        except BaseException as e:
            after(self, args, kwargs, None, e, token)
            raise
        after(self, args, kwargs, res, None, token)
        return res

    wrapper.__verif_orig__ = orig
    setattr(cls, name, wrapper)
    return orig, wrapper


def wrap_generator_method(cls, name, on_done):
    """on_done(self, args, kwargs, items, exc, exhausted) when the generator finishes / is closed."""
    orig = cls.__dict__[name]

    @functools.wraps(orig)
    def wrapper(self, *args, **kwargs):
        items = []
        exhausted = False
        try:
            for it in orig(self, *args, **kwargs):
                items.append(it)
                yield it
            exhausted = True
        except GeneratorExit:
            on_done(self, args, kwargs, items, None, False)
            raise
        except BaseException as e:
            on_done(self, args, kwargs, items, e, False)
            raise
        on_done(self, args, kwargs, items, None, exhausted)

    wrapper.__verif_orig__ = orig
    setattr(cls, name, wrapper)
    return orig, wrapper


def cache_dicts():
    """All caching.* wrapper dicts reachable through __closure__: {qualified name: dict}."""
    out = {}
    for mname, mod in _spil_modules():
        for k, v in list(vars(mod).items()):
            f = getattr(v, "__verif_orig__", v)
            if inspect.isfunction(f) and f.__closure__ and hasattr(f, "cache_clear"):
                for cell in f.__closure__:
                    try:
                        c = cell.cell_contents
                    except ValueError:
                        continue
                    if isinstance(c, dict):
                        out["%s.%s" % (getattr(f, "__module__", mname), getattr(f, "__qualname__", k))] = c
    return out
