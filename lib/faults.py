"""Fault injection for C17.

Injector A (python level): counting proxies on the file-system entry points; a recording pass yields the effect list of one
operation, then the operation is re-run (in forked children) dying before effect k / after each byte prefix of a write.
Injector B (kernel level): strace attached to a SIGSTOPped forked child; a tracing pass lists the mutating syscalls, then
one run per (syscall name, ordinal) kills the process on entry to that syscall (strace -e inject=...:signal=KILL:when=N).
"""
import builtins
import io
import json
import os
import pathlib
import re
import signal
import subprocess
import sys
import time

EXIT_CUT = 77


class Interposer:
    """mode 'record': logs effects. mode 'cut': dies at the given point.
    cut = {"effect": k}                -> die just before effect number k (0-based) happens
    cut = {"effect": k, "prefix": j}   -> effect k is a write: write the first j units, flush, die
    """

    WRITE_MODES = ("w", "a", "x", "+")

    def __init__(self, watch_dir, mode="record", cut=None):
        self.watch = os.path.realpath(watch_dir)
        self.mode = mode
        self.cut = cut or {}
        self.effects = []
        self._orig = {}

    # -- helpers
    def _watched(self, p):
        try:
            p = os.fspath(p)
        except TypeError:
            return False
        if isinstance(p, bytes):
            p = p.decode("utf8", "replace")
        return os.path.realpath(p).startswith(self.watch) if isinstance(p, str) else False

    def _effect(self, kind, *detail):
        k = len(self.effects)
        if self.mode == "cut" and self.cut.get("effect") == k and "prefix" not in self.cut:
            os._exit(EXIT_CUT)
        self.effects.append([kind] + [str(d) for d in detail])
        return k

    # -- installation
    def install(self):
        me = self
        real_open = io.open
        self._orig["io.open"] = real_open
        self._orig["builtins.open"] = builtins.open

        class WriteProxy:
            def __init__(self, f, path):
                object.__setattr__(self, "_f", f)
                object.__setattr__(self, "_path", path)

            def write(self, s):
                k = len(me.effects)
                if me.mode == "cut" and me.cut.get("effect") == k and "prefix" in me.cut:
                    j = me.cut["prefix"]
                    self._f.write(s[:j])
                    self._f.flush()
                    os._exit(EXIT_CUT)
                me._effect("write", self._path, len(s))
                return self._f.write(s)

            def writelines(self, lines):
                for l in lines:
                    self.write(l)

            def __enter__(self):
                self._f.__enter__()
                return self

            def __exit__(self, *a):
                return self._f.__exit__(*a)

            def __getattr__(self, n):
                return getattr(self._f, n)

            def __iter__(self):
                return iter(self._f)

        def patched_open(file, mode="r", *a, **kw):
            if isinstance(file, int) or not me._watched(file) or not any(m in mode for m in me.WRITE_MODES):
                return real_open(file, mode, *a, **kw)
            me._effect("open_w", os.fspath(file), mode)
            return WriteProxy(real_open(file, mode, *a, **kw), os.fspath(file))

        io.open = patched_open
        builtins.open = patched_open

        def wrap_os(name, path_args=(0,)):
            orig = getattr(os, name)
            self._orig["os." + name] = orig

            def w(*a, **kw):
                ps = [a[i] for i in path_args if i < len(a)]
                if any(me._watched(p) for p in ps if not isinstance(p, int)):
                    me._effect(name, *ps)
                return orig(*a, **kw)
            setattr(os, name, w)

        for n in ("replace", "rename", "link", "symlink"):
            wrap_os(n, (0, 1))
        for n in ("unlink", "remove", "truncate", "mkdir", "rmdir", "utime"):
            wrap_os(n, (0,))
        # os.open with write flags (Path.touch uses it)
        real_os_open = os.open
        self._orig["os.open"] = real_os_open

        def os_open(path, flags, *a, **kw):
            if me._watched(path) and (flags & (os.O_WRONLY | os.O_RDWR | os.O_CREAT | os.O_TRUNC | os.O_APPEND)):
                me._effect("os.open_w", path, flags)
            return real_os_open(path, flags, *a, **kw)
        os.open = os_open
        # shutil.copy2 / copyfile use open() -> covered
        return self

    def uninstall(self):
        io.open = self._orig["io.open"]
        builtins.open = self._orig["builtins.open"]
        for k, v in self._orig.items():
            if k.startswith("os."):
                setattr(os, k[3:], v)


def fork_run(fn, timeout=60):
    """Runs fn() in a forked child; returns (exit status, JSON result or None). fn returns a JSON-able object."""
    r, w = os.pipe()
    pid = os.fork()
    if pid == 0:
        os.close(r)
        code = 0
        try:
            res = fn()
            os.write(w, json.dumps(res, default=str).encode())
        except SystemExit as e:
            code = e.code or 0
        except BaseException as e:
            import traceback
            try:
                os.write(w, json.dumps({"_exception": "%s: %s" % (type(e).__name__, e), "_trace": traceback.format_exc()[-1500:]}).encode())
            except Exception:
                pass
            code = 3
        finally:
            os._exit(code if isinstance(code, int) else 1)
    os.close(w)
    chunks = []
    t0 = time.time()
    while True:
        b = os.read(r, 65536)
        if not b:
            break
        chunks.append(b)
    os.close(r)
    _, status = os.waitpid(pid, 0)
    out = b"".join(chunks)
    res = None
    if out:
        try:
            res = json.loads(out.decode())
        except Exception:
            res = {"_raw": out[:300].decode("utf8", "replace")}
    if os.WIFSIGNALED(status):
        return -os.WTERMSIG(status), res
    return os.WEXITSTATUS(status), res


# ---------------------------------------------------------------------------------------------- Injector B (strace)
MUTATING = "openat,open,creat,write,pwrite64,writev,rename,renameat,renameat2,unlink,unlinkat,ftruncate,truncate,fsync,fdatasync,mkdir,mkdirat,link,linkat,symlink,symlinkat,utimensat"


def strace_run(fn, watch_dir, inject=None, timeout=60):
    """Forks a child that SIGSTOPs itself, attaches strace, continues it, runs fn. Returns (status, trace lines touching watch_dir).
    inject: (syscall, ordinal) -> the child is killed on entry to that occurrence (counted per syscall name from attach)."""
    import tempfile
    tf = tempfile.NamedTemporaryFile(prefix="strace_", suffix=".log", delete=False)
    tf.close()
    pid = os.fork()
    if pid == 0:
        try:
            os.kill(os.getpid(), signal.SIGSTOP)
            fn()
        except BaseException:
            os._exit(3)
        os._exit(0)
    # wait until stopped
    for _ in range(200):
        try:
            st = open("/proc/%d/stat" % pid).read().split(")")[-1].split()[0]
        except OSError:
            st = "?"
        if st in ("T", "t"):
            break
        time.sleep(0.005)
    cmd = ["strace", "-f", "-y", "-qq", "-o", tf.name, "-e", "trace=" + MUTATING, "-p", str(pid)]
    if inject:
        cmd[1:1] = ["-e", "inject=%s:signal=KILL:when=%d" % inject]
    sp = subprocess.Popen(cmd, stdout=subprocess.PIPE, stderr=subprocess.PIPE)
    # wait for the tracer to be attached
    attached = False
    for _ in range(400):
        try:
            txt = open("/proc/%d/status" % pid).read()
            m = re.search(r"TracerPid:\s+(\d+)", txt)
            if m and int(m.group(1)) != 0:
                attached = True
                break
        except OSError:
            break
        time.sleep(0.005)
    os.kill(pid, signal.SIGCONT)
    _, status = os.waitpid(pid, 0)
    try:
        sp.wait(timeout=timeout)
    except subprocess.TimeoutExpired:
        sp.kill()
    lines = []
    try:
        with open(tf.name, errors="replace") as f:
            lines = [l.rstrip("\n") for l in f]
    finally:
        os.unlink(tf.name)
    st = -os.WTERMSIG(status) if os.WIFSIGNALED(status) else os.WEXITSTATUS(status)
    return st, lines, attached


def parse_trace(lines, watch_dir):
    """Returns list of (syscall, ordinal per syscall name (1-based, over ALL calls of that name), line) for mutating calls on watch_dir."""
    counts = {}
    out = []
    w = os.path.realpath(watch_dir)
    for l in lines:
        m = re.match(r"^(?:\d+\s+)?(\w+)\(", l)
        if not m:
            continue
        name = m.group(1)
        if "<unfinished" in l and False:
            continue
        if "resumed>" in l:
            continue
        counts[name] = counts.get(name, 0) + 1
        if w not in l:
            continue
        if name in ("openat", "open"):
            if not re.search(r"O_WRONLY|O_RDWR|O_CREAT|O_TRUNC|O_APPEND", l):
                continue
        out.append((name, counts[name], l[:300]))
    return out
