"""A second data configuration for the demo project, written into a PRIVATE copy of spil_hamlet_conf.

The demo `spil_data_conf` builds new Finder objects on every `get_finder_for` call and ignores the `config` argument. Both are
choices of that configuration file, not of the library: the documented purpose of `config` is "to create multiple FindInAll /
GetFromAll instances (similar to FindInPaths where we find in different file systems)".  This variant
  * creates its Finders and Getters ONCE per path configuration and hands the same objects out for every typed search, and
  * dispatches on `config`: FindInAll('server') / GetFromAll('server') look at the server tree.
Levels, constants and the types without Getter are those of the demo configuration (read from spil_sid_conf at run time).
"""
import os

MARK = "# ---- VERIF DATACONF VARIANT"

BLOCK = '''

%s (appended by /verif/lib/dataconf_variant.py)
_v_finders = {}
_v_getters = {}


def get_finder_for(search_sid, config=None):
    if config not in _v_finders:
        from spil_sid_conf import projects, asset_types  # type: ignore
        from spil import FindInConstants, FindInPaths
        fp = FindInPaths(config)
        fproj = FindInConstants("project", projects)
        ftypes = FindInConstants("type", ["a", "s"], parent_source=fproj)
        fat = FindInConstants("assettype", asset_types, parent_source=ftypes)
        fst = FindInConstants("state", ["w", "p"], parent_source=fp)
        _v_finders[config] = {"project": fproj, "asset": ftypes, "shot": ftypes, "asset__assettype": fat,
                              "asset__state": fst, "shot__state": fst, "default": fp}
    d = _v_finders[config]
    return d.get(search_sid.type) or d["default"]


def get_getter_for(sid, attribute=None, config=None):
    if config not in _v_getters:
        from spil import GetFromPaths
        from hamlet_plugins.next_get import NextGetter
        _v_getters[config] = {"next.version": NextGetter(), "default": GetFromPaths(config)}
    g = _v_getters[config]
    if attribute == "next.version":
        return g["next.version"]
    if sid.type in ("project", "asset", "shot", "asset__assettype", "asset__state", "shot__state"):
        return None
    return g["default"]
''' % MARK


def apply(conf_dir):
    """conf_dir: a private .../spil_hamlet_conf copy. Idempotent."""
    p = os.path.join(conf_dir, "spil_data_conf.py")
    s = open(p).read()
    if MARK not in s:
        with open(p, "a") as f:
            f.write(BLOCK)
    return conf_dir


def active():
    return os.environ.get("VERIF_DATACONF_VARIANT") == "1"


def envs(snap, shard_args_list):
    """envs_fn for Lab based checks: a private configuration copy per shard; shards flagged 'dataconf_variant' (and replays of
    cases recorded under it) get the second data configuration."""
    out = []
    for i, a in enumerate(shard_args_list):
        rp = a.get("replay") or {}
        variant = a.get("dataconf_variant") or rp.get("_dataconf_variant") or rp.get("dataconf_variant")
        d = snap.conf_copy("w%d%s" % (i, "v" if variant else ""))
        if variant:
            apply(d)
        out.append(snap.env(conf_dir=d, extra={"VERIF_DATACONF_VARIANT": "1"} if variant else None))
    return out


def flag(shard_args_list, every=3, first=1):
    for i, a in enumerate(shard_args_list):
        a["dataconf_variant"] = (i % every == first)
    return shard_args_list
