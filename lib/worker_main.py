"""Entry point of a worker process: imports spil from the snapshot, runs checks.<mod>.worker(args)."""
import importlib
import json
import os
import sys
import traceback


def main():
    module, argf, outf = sys.argv[1:4]
    with open(argf) as f:
        args = json.load(f)
    verif = os.path.dirname(os.path.dirname(os.path.abspath(__file__)))
    if verif not in sys.path:
        sys.path.append(verif)
    for w in sorted(os.listdir(os.path.join(verif, "vendor"))):
        if w.endswith(".whl"):
            sys.path.append(os.path.join(verif, "vendor", w))
    # silence spil's import-time prints
    import io
    real_stdout = sys.stdout
    sys.stdout = io.StringIO()
    try:
        if not args.get("_no_spil"):
            import spil  # noqa
            snap_repo = os.environ.get("VERIF_SNAP_REPO", "")
            if snap_repo and not os.path.abspath(spil.__file__).startswith(os.path.abspath(snap_repo)):
                res = {"_failed": "spil imported from %s, not from snapshot %s" % (spil.__file__, snap_repo)}
                with open(outf, "w") as f:
                    json.dump(res, f)
                return
            try:
                import logging
                logging.getLogger("resolva").setLevel(logging.CRITICAL)
                from spil.util import log as slog
                slog.setLevel(100)
            except Exception:
                pass
        mod = importlib.import_module("checks." + module)
        res = mod.worker(args)
    except BaseException:
        res = {"_failed": "worker exception:\n" + traceback.format_exc()}
    finally:
        sys.stdout = real_stdout
    with open(outf, "w") as f:
        json.dump(res, f, default=str)


if __name__ == "__main__":
    main()
