"""Entry point of a worker process: imports spil from the snapshot, runs checks.<mod>.worker(args)."""
import importlib
import json
import os
import sys
import traceback


def main():
    module, argf, outf = sys.argv[1:4]
    with open(argf) as f:
        args = json.load(f)
    verif = os.path.dirname(os.path.dirname(os.path.abspath(__file__)))
    if verif not in sys.path:
        sys.path.append(verif)
    for w in sorted(os.listdir(os.path.join(verif, "vendor"))):
        if w.endswith(".whl"):
            sys.path.append(os.path.join(verif, "vendor", w))
    # silence spil's import-time prints
    import io
    real_stdout = sys.stdout
    sys.stdout = io.StringIO()
    try:
        if not args.get("_no_spil"):
            import spil  # noqa
            snap_repo = os.environ.get("VERIF_SNAP_REPO", "")
            if snap_repo and not os.path.abspath(spil.__file__).startswith(os.path.abspath(snap_repo)):
                res = {"_failed": "spil imported from %s, not from snapshot %s" % (spil.__file__, snap_repo)}
                with open(outf, "w") as f:
                    json.dump(res, f)
                return
            try:
                import logging
                logging.getLogger("resolva").setLevel(logging.CRITICAL)
                from spil.util import log as slog
                slog.setLevel(100)
            except Exception:
                pass
        mod = importlib.import_module("checks." + module)
        from lib.rec import Rec, StopWorkload
        import signal
        budget = float(os.environ.get("VERIF_WATCHDOG", "0") or 0)

        def on_alarm(signum, frame):
            # generous wall-clock watchdog: firing is INCONCLUSIVE (unless violations were already recorded), never a violation
            if Rec.current is not None:
                Rec.current.inconclusive.append("wall-clock watchdog (%ss) fired in worker %s" % (budget, module))
            raise StopWorkload()
        if budget > 0:
            signal.signal(signal.SIGALRM, on_alarm)
            signal.setitimer(signal.ITIMER_REAL, budget)
        try:
            res = mod.worker(args)
        except StopWorkload:
            res = Rec.current.result() if Rec.current is not None else {"_failed": "watchdog fired before the workload started"}
        finally:
            if budget > 0:
                signal.setitimer(signal.ITIMER_REAL, 0)
    except BaseException:
        res = {"_failed": "worker exception:\n" + traceback.format_exc()}
    finally:
        sys.stdout = real_stdout
    with open(outf, "w") as f:
        json.dump(res, f, default=str)


if __name__ == "__main__":
    main()
