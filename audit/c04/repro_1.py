"""
C05 - Sid.path() raises ResolvaException (and Sid(path=) disowns the path) when a value of a level is a
"_"-prefix of another value of the same level / when two adjacent file-name fields are free names.

Variant A: the demo configuration with ONE more asset type in the vocabulary:  'fx_big'  (next to 'fx').
Variant B: the demo configuration where sequence and shot are free names (no '{sequence}' / '{shot}' pattern),
           exactly like 'asset' is a free name in the demo.

run: PYTHONPATH=/tmp/spilwt6/c04:/tmp/spilwt6/c04/spil_hamlet_conf /venv/bin/python repro_1.py
"""
# --- helper: run a child python with a patched COPY of the demo configuration folder ---
import os
import shutil
import subprocess
import sys
import tempfile

WORKTREE = os.path.dirname(os.path.dirname(os.path.abspath(__file__)))  # /tmp/spilwt6/c04
DEMO_CONF = os.path.join(WORKTREE, "spil_hamlet_conf")

QUIET = (
    "import logging\n"
    "from spil.util.log import setLevel, ERROR\n"
    "setLevel(ERROR); logging.getLogger('resolva').setLevel(logging.ERROR)\n"
)


def run_with_conf_copy(child_code, patch=None, folder_name="conf"):
    """
    Copies the demo configuration folder into <tmp>/<folder_name>, optionally patches files of the copy
    (patch: {file name: function(text) -> text}), runs child_code in a fresh python having the copy
    (instead of the demo folder) on PYTHONPATH, and returns its stdout. The temp folder is removed.
    The library sources and the original demo configuration are never modified.
    """
    tmp = tempfile.mkdtemp(prefix="spil_audit_")
    try:
        conf_dir = os.path.join(tmp, folder_name)
        shutil.copytree(DEMO_CONF, conf_dir)
        for file_name, fn in (patch or {}).items():
            p = os.path.join(conf_dir, file_name)
            with open(p) as f:
                src = f.read()
            new = fn(src)
            assert new != src, "patch of {} did not apply".format(file_name)
            with open(p, "w") as f:
                f.write(new)
        env = dict(os.environ, PYTHONPATH=WORKTREE + os.pathsep + conf_dir)
        out = subprocess.run([sys.executable, "-W", "ignore", "-c", QUIET + child_code],
                             env=env, capture_output=True, text=True)
        if out.returncode not in (0, 1):
            print(out.stdout)
            print(out.stderr[-3000:])
            raise SystemExit("child crashed unexpectedly (exit code {})".format(out.returncode))
        lines = [l for l in out.stdout.splitlines() if not l.startswith("INFO")]
        return out.returncode, "\n".join(lines)
    finally:
        shutil.rmtree(tmp, ignore_errors=True)
# --- end of helper ---

CHILD = r'''
import sys
from spil import Sid
bad = 0
for s in SIDS:
    sid = Sid(s)
    assert sid.type, s
    for c in ("local", "server"):
        try:
            p = sid.path(c)
        except Exception as e:
            print("  %r .path(%r) RAISED %r" % (sid, c, e)); bad += 1; continue
        back = Sid(path=p, config=c) if p else None
        ok = back == sid
        print("  %r .path(%r) = ...%s -> Sid(path=) = %r  %s" % (sid, c, str(p)[-55:], back, "ok" if ok else "VIOLATION"))
        bad += 0 if ok else 1
# the other direction: the path that such a Sid must have (C06 side: it is answered by an untyped Sid)
for s, tail in PATHS:
    root = Sid("hamlet").path("local").parent
    p = root.as_posix() + tail
    got = Sid(path=p, config="local")
    print("  Sid(path=...%s) = %r  (its only possible owner is %s)" % (tail[-60:], got, s))
    bad += 0 if got == Sid(s) else 1
sys.exit(1 if bad else 0)
'''


def variant_a():
    print("Variant A: demo configuration + asset type 'fx_big' in asset_types")
    child = ("SIDS = ['hamlet/a/fx/boom/model/v001/w/ma', 'hamlet/a/fx_big/boom/model/v001/w/ma', 'hamlet/a/fx_big/boom/model/v001/p/mov']\n"
             "PATHS = [('hamlet/a/fx_big/boom/model/v001/w/ma', '/HAMLET/PROD/ASSETS/fx_big/boom/model/v001/fx_big_boom_model_WORK_v001.ma')]\n" + CHILD)
    patch = {"spil_sid_conf.py": lambda t: t.replace("asset_types = ['char', 'location', 'prop', 'fx']",
                                                     "asset_types = ['char', 'location', 'prop', 'fx', 'fx_big']")}
    code, out = run_with_conf_copy(child, patch)
    print(out)
    return code


def variant_b():
    print("Variant B: demo configuration with free sequence and shot names")
    child = ("SIDS = ['hamlet/s/intro/fight', 'hamlet/s/intro/fight_a', 'hamlet/s/intro/fight_a/anim/v001/w/ma']\n"
             "PATHS = [('hamlet/s/intro/fight_a', '/HAMLET/PROD/SHOTS/intro/intro_fight_a')]\n" + CHILD)

    def drop_patterns(text):
        lines = [l for l in text.splitlines(True)
                 if not l.lstrip().startswith("'{sequence}'") and not l.lstrip().startswith("'{shot}'")]
        return "".join(lines)

    code, out = run_with_conf_copy(child, {"spil_sid_conf.py": drop_patterns})
    print(out)
    return code


if __name__ == "__main__":
    a = variant_a()
    b = variant_b()
    violated = bool(a or b)
    print("VIOLATION observed" if violated else "no violation")
    sys.exit(1 if violated else 0)
