"""
C05 - a type specific path mapping  path_mapping[(key, type)]  is applied with two different meanings:
Sid -> path REPLACES the global mapping of the key (values it does not list are written unmapped),
path -> Sid applies it ON TOP of the global mapping. Values the specific mapping does not list lose their path.

Configuration: the demo configuration, plus "published movies of assets are stored as REVIEW":
    path_mapping[('state', 'asset__movie_file')] = {'REVIEW': 'p'}      (one-to-one; 'w' stays WORK, globally mapped)
and REVIEW added to the accepted state names of the path templates.

run: PYTHONPATH=/tmp/spilwt6/c04:/tmp/spilwt6/c04/spil_hamlet_conf /venv/bin/python repro_3.py
"""
# --- helper: run a child python with a patched COPY of the demo configuration folder ---
import os
import shutil
import subprocess
import sys
import tempfile

WORKTREE = os.path.dirname(os.path.dirname(os.path.abspath(__file__)))  # /tmp/spilwt6/c04
DEMO_CONF = os.path.join(WORKTREE, "spil_hamlet_conf")

QUIET = (
    "import logging\n"
    "from spil.util.log import setLevel, ERROR\n"
    "setLevel(ERROR); logging.getLogger('resolva').setLevel(logging.ERROR)\n"
)


def run_with_conf_copy(child_code, patch=None, folder_name="conf"):
    """
    Copies the demo configuration folder into <tmp>/<folder_name>, optionally patches files of the copy
    (patch: {file name: function(text) -> text}), runs child_code in a fresh python having the copy
    (instead of the demo folder) on PYTHONPATH, and returns its stdout. The temp folder is removed.
    The library sources and the original demo configuration are never modified.
    """
    tmp = tempfile.mkdtemp(prefix="spil_audit_")
    try:
        conf_dir = os.path.join(tmp, folder_name)
        shutil.copytree(DEMO_CONF, conf_dir)
        for file_name, fn in (patch or {}).items():
            p = os.path.join(conf_dir, file_name)
            with open(p) as f:
                src = f.read()
            new = fn(src)
            assert new != src, "patch of {} did not apply".format(file_name)
            with open(p, "w") as f:
                f.write(new)
        env = dict(os.environ, PYTHONPATH=WORKTREE + os.pathsep + conf_dir)
        out = subprocess.run([sys.executable, "-W", "ignore", "-c", QUIET + child_code],
                             env=env, capture_output=True, text=True)
        if out.returncode not in (0, 1):
            print(out.stdout)
            print(out.stderr[-3000:])
            raise SystemExit("child crashed unexpectedly (exit code {})".format(out.returncode))
        lines = [l for l in out.stdout.splitlines() if not l.startswith("INFO")]
        return out.returncode, "\n".join(lines)
    finally:
        shutil.rmtree(tmp, ignore_errors=True)
# --- end of helper ---

CHILD = r'''
import sys
from spil import Sid
bad = 0
for s in ["hamlet/a/char/x/model/v001/p/mov", "hamlet/a/char/x/model/v001/w/ma", "hamlet/a/char/x/model/v001/w/mov"]:
    sid = Sid(s)
    assert sid.type, s
    for c in ("local", "server"):
        p = sid.path(c)
        back = Sid(path=p, config=c)
        ok = back == sid
        print("  %r .path(%r) = %s -> Sid(path=) = %r  %s" % (sid, c, ("..." + str(p)[-45:]) if p else p, back, "ok" if ok else "VIOLATION"))
        bad += 0 if ok else 1
p = Sid("hamlet/a/char/x/model/v001/p/mov").path("local").as_posix().replace("REVIEW", "WORK")
got = Sid(path=p, config="local")
print("  Sid(path=...%s) = %r   (expected the work movie hamlet/a/char/x/model/v001/w/mov)" % (p[-45:], got))
bad += 0 if got == Sid("hamlet/a/char/x/model/v001/w/mov") else 1
sys.exit(1 if bad else 0)
'''


def patch_fs(text):
    text = text.replace("    # Specific path mapping by type not needed here\n",
                        "    ('state', 'asset__movie_file'): {'REVIEW': 'p'},\n")
    text = text.replace("(WORK|PUBLISH|", "(WORK|PUBLISH|REVIEW|").replace("(PUBLISH|", "(PUBLISH|REVIEW|")
    return text


if __name__ == "__main__":
    code, out = run_with_conf_copy(CHILD, {"spil_fs_conf.py": patch_fs})
    print(out)
    print("VIOLATION observed" if code else "no violation")
    sys.exit(1 if code else 0)
