"""
C05 - literal parts of a path template (here: the configured root folder) are read as a regular expression.
The UNMODIFIED demo configuration, installed under a folder whose name contains a regex metacharacter
("conf (copy)", "c++", "a|b"), gives no path at all (or a path that resolves to no Sid) for every Sid.

run: PYTHONPATH=/tmp/spilwt6/c04:/tmp/spilwt6/c04/spil_hamlet_conf /venv/bin/python repro_2.py
"""
# --- helper: run a child python with a patched COPY of the demo configuration folder ---
import os
import shutil
import subprocess
import sys
import tempfile

WORKTREE = os.path.dirname(os.path.dirname(os.path.abspath(__file__)))  # /tmp/spilwt6/c04
DEMO_CONF = os.path.join(WORKTREE, "spil_hamlet_conf")

QUIET = (
    "import logging\n"
    "from spil.util.log import setLevel, ERROR\n"
    "setLevel(ERROR); logging.getLogger('resolva').setLevel(logging.ERROR)\n"
)


def run_with_conf_copy(child_code, patch=None, folder_name="conf"):
    """
    Copies the demo configuration folder into <tmp>/<folder_name>, optionally patches files of the copy
    (patch: {file name: function(text) -> text}), runs child_code in a fresh python having the copy
    (instead of the demo folder) on PYTHONPATH, and returns its stdout. The temp folder is removed.
    The library sources and the original demo configuration are never modified.
    """
    tmp = tempfile.mkdtemp(prefix="spil_audit_")
    try:
        conf_dir = os.path.join(tmp, folder_name)
        shutil.copytree(DEMO_CONF, conf_dir)
        for file_name, fn in (patch or {}).items():
            p = os.path.join(conf_dir, file_name)
            with open(p) as f:
                src = f.read()
            new = fn(src)
            assert new != src, "patch of {} did not apply".format(file_name)
            with open(p, "w") as f:
                f.write(new)
        env = dict(os.environ, PYTHONPATH=WORKTREE + os.pathsep + conf_dir)
        out = subprocess.run([sys.executable, "-W", "ignore", "-c", QUIET + child_code],
                             env=env, capture_output=True, text=True)
        if out.returncode not in (0, 1):
            print(out.stdout)
            print(out.stderr[-3000:])
            raise SystemExit("child crashed unexpectedly (exit code {})".format(out.returncode))
        lines = [l for l in out.stdout.splitlines() if not l.startswith("INFO")]
        return out.returncode, "\n".join(lines)
    finally:
        shutil.rmtree(tmp, ignore_errors=True)
# --- end of helper ---

CHILD = r'''
import sys
from spil import Sid
import spil_fs_conf
print("  configured root:", spil_fs_conf.project_root_path.as_posix())
bad = 0
for s in ["hamlet", "hamlet/a/char/ophelia/model/v001/w/ma", "hamlet/s/sq010/sh0010"]:
    sid = Sid(s)
    assert sid.type, s
    for c in ("local", "server"):
        try:
            p = sid.path(c)
            back = Sid(path=p, config=c)
        except Exception as e:
            print("  %r (%s) RAISED %r" % (sid, c, e)); bad += 1; continue
        ok = back == sid
        print("  %r .path(%r) = %s -> Sid(path=) = %r  %s" % (sid, c, ("..." + str(p)[-50:]) if p else p, back, "ok" if ok else "VIOLATION"))
        bad += 0 if ok else 1
sys.exit(1 if bad else 0)
'''

if __name__ == "__main__":
    violated = False
    for folder in ["plain_name", "conf (copy)", "c++", "a|b"]:
        print('demo configuration copied, unchanged, into a folder named "{}"'.format(folder))
        code, out = run_with_conf_copy(CHILD, folder_name=os.path.join(folder, "spil_hamlet_conf"))
        print(out)
        if folder == "plain_name":
            assert code == 0, "control case failed"
        else:
            violated = violated or bool(code)
    print("VIOLATION observed" if violated else "no violation")
    sys.exit(1 if violated else 0)
