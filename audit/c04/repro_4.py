"""
C05 (adjacent to C01 / C13) - fresh process, unmodified demo configuration:
importing the path configuration module before spil ("from spil_fs_conf import project_root_path", to know where
the files are) changes the Sid templates: spil_fs_conf does  key_patterns = key_patterns.copy()  (a shallow copy)
and then updates the nested dictionaries of spil_sid_conf in place. No demo Sid is typed any more, so none has a path.

run: PYTHONPATH=/tmp/spilwt6/c04:/tmp/spilwt6/c04/spil_hamlet_conf /venv/bin/python repro_4.py
"""
import subprocess, sys

CHILD = r'''
import sys, logging
%s
from spil import Sid
from spil.util.log import setLevel, ERROR
setLevel(ERROR); logging.getLogger('resolva').setLevel(logging.ERROR)
bad = 0
for s in ["hamlet", "hamlet/a/char/ophelia/model/v001/w/ma"]:
    sid = Sid(s)
    p = sid.path("local")
    back = Sid(path=p, config="local")
    ok = bool(sid) and back == sid
    print("  Sid(%%r): type=%%r path=%%s -> Sid(path=) = %%r  %%s" %% (s, sid.type, ("..." + str(p)[-40:]) if p else p, back, "ok" if ok else "VIOLATION"))
    bad += 0 if ok else 1
sys.exit(1 if bad else 0)
'''


def run(first_line):
    out = subprocess.run([sys.executable, "-W", "ignore", "-c", CHILD % first_line], capture_output=True, text=True)
    print("\n".join(l for l in out.stdout.splitlines() if not l.startswith("INFO")))
    if out.returncode not in (0, 1):
        print(out.stderr[-2000:])
    return out.returncode


if __name__ == "__main__":
    print("process 1:  from spil import Sid")
    control = run("")
    print("process 2:  from spil_fs_conf import project_root_path ; from spil import Sid")
    code = run("from spil_fs_conf import project_root_path")
    violated = control == 0 and code != 0
    print("VIOLATION observed" if violated else "no violation")
    sys.exit(1 if violated else 0)
