"""
C10 - FindInConstants (a public Finder) asked with a search that goes deeper than its own key
returns the ancestor Sids at its key level: results that do not match the search.

Run: PYTHONPATH=/tmp/spilwt8/e03:/tmp/spilwt8/e03/spil_hamlet_conf /venv/bin/python repro_1.py
"""
import logging
import sys


def main():
    from spil import Sid, FindInConstants, FindInList
    from spil.util.log import setLevel
    setLevel(logging.CRITICAL)

    # a parent source that holds the levels above the constants (no file system needed)
    parent = FindInList(["hamlet", "hamlet/a", "hamlet/a/char", "hamlet/a/char/ophelia", "hamlet/a/char/ophelia/rig",
                         "hamlet/a/char/ophelia/rig/v001"])
    assettypes = FindInConstants("assettype", ["char", "location", "prop", "fx"], parent_source=parent)
    states = FindInConstants("state", ["w", "p"], parent_source=parent)

    violations = 0
    cases = [
        (assettypes, "hamlet/a/char/nobody"),                        # concrete asset that exists nowhere
        (assettypes, "hamlet/a/char/*"),                             # search for assets
        (assettypes, "hamlet/a/*/*/rig"),                            # search for tasks
        (states, "hamlet/a/char/ophelia/rig/v001/w/ma"),             # concrete file
        (states, "hamlet/a/char/ophelia/rig/v001/*/ma"),             # search for files
        (states, "hamlet/a/char/ophelia/rig/v001/w/*?ext=mov"),      # filter on a key of the searched types
    ]
    for finder, search in cases:
        found = list(finder.find(search))
        exists = finder.exists(search)
        print(f"FindInConstants({finder.key!r}).find({search!r})")
        print(f"    -> {found}   exists() -> {exists}")
        for sid in found:
            # "every result is a typed Sid that matches the search"
            matches = sid.match(search)
            same_depth = len(sid) == len(str(search).split("?")[0].split("/"))
            print(f"       result {sid!r}: match(search)={matches}, same number of segments={same_depth}")
            if not matches:
                violations += 1

    # the same finder answers correctly at its own level (its documented use)
    print("control:", list(assettypes.find("hamlet/a/*")), list(states.find("hamlet/a/char/ophelia/rig/v001/*")))

    if violations:
        print(f"VIOLATION: {violations} results do not match the search they were returned for")
        return 1
    print("no violation observed")
    return 0


if __name__ == "__main__":
    sys.exit(main())
