"""C10 - FindInAll: replacing a '*' by a literal value (or appending the filter k=v) returns entities
that the '*' search does not return, when the searched level is backed by constants ('state').

Run: PYTHONPATH=/tmp/spilwt6/c05:/tmp/spilwt6/c05/spil_hamlet_conf /venv/bin/python repro_1.py
Creates (and removes) spil_hamlet_conf/data/testing/SPIL_PROJECTS.
"""
import logging
import shutil
import sys


def main():
    from spil import FindInAll, FindInPaths, Sid, WriteToPaths, setLevel
    setLevel(logging.CRITICAL)

    existing = ["hamlet/a/char/ophelia/rig/v001/w/ma", "hamlet/a/char/horatio/rig/v001/w/ma"]
    top = Sid("hamlet").path("local").parent.parent.parent  # .../data/testing/SPIL_PROJECTS
    assert top.name == "SPIL_PROJECTS" and top.parent.name == "testing", top
    if top.exists():
        print(f"{top} already exists, refusing to run")
        return 2
    try:
        writer = WriteToPaths("local")
        for s in existing:
            writer.create(s)

        fa = FindInAll()
        star = "hamlet/a/char/*/rig/v001/w"
        literal = "hamlet/a/char/nobody/rig/v001/w"
        filtered = "hamlet/a/char/*/rig/v001/w?asset=nobody"
        r_star = list(fa.find(star, as_sid=False))
        r_lit = list(fa.find(literal, as_sid=False))
        r_fil = list(fa.find(filtered, as_sid=False))
        r_state = list(fa.find("hamlet/a/char/nobody/rig/v001/*", as_sid=False))
        print("file tree holds exactly:", existing)
        print("FindInPaths 'hamlet/a/char/*' ->", sorted(FindInPaths().find("hamlet/a/char/*", as_sid=False)))
        print(f"FindInAll {star!r:42} ->", r_star)
        print(f"FindInAll {literal!r:42} ->", r_lit)
        print(f"FindInAll {filtered!r:42} ->", r_fil)
        print(f"FindInAll {'hamlet/a/char/nobody/rig/v001/*'!r:42} ->", r_state)
        expected_filtered = {x for x in r_star if Sid(x).get("asset") == "nobody"}
        violated = (not set(r_lit) <= set(r_star)) or (set(r_fil) != expected_filtered)
    finally:
        shutil.rmtree(top, ignore_errors=True)

    if violated:
        print("VIOLATION: the literal / filtered search returns a Sid (asset 'nobody', which does not exist) "
              "that the same search with '*' does not return")
        return 1
    print("no violation observed")
    return 0


if __name__ == "__main__":
    sys.exit(main())
