"""C08 - a '>' character inside a value (legal for an open field like 'asset'): the entry is found by '*',
but searching it literally, or asking the Sid whether it matches itself, raises ValueError.

Run: PYTHONPATH=/tmp/spilwt6/c05:/tmp/spilwt6/c05/spil_hamlet_conf /venv/bin/python repro_6.py
"""
import logging
import sys


def main():
    from spil import FindInList, Sid, setLevel
    setLevel(logging.CRITICAL)

    entries = ["hamlet/a/char/a>b", "hamlet/a/char/a<b", "hamlet/a/char/ab"]
    print("L =", entries, "| Sid('hamlet/a/char/a>b') ->", repr(Sid("hamlet/a/char/a>b")))
    bad = 0
    for search in ["hamlet/a/char/*", "hamlet/a/char/a<b", "hamlet/a/char/a>b", "hamlet/a/char/a>*"]:
        try:
            result = list(FindInList(entries).find(search, as_sid=False))
        except Exception as e:  # noqa
            result = repr(e)
            bad += 1
        print(f"find({search!r}) -> {result}")
    try:
        m = Sid("hamlet/a/char/a>b").match("hamlet/a/char/a>b")
    except Exception as e:  # noqa
        m = repr(e)
        bad += 1
    print("Sid('hamlet/a/char/a>b').match('hamlet/a/char/a>b') ->", m)
    if bad:
        print("VIOLATION: every other character should match itself; the entry is in L, so it should be found")
    return 1 if bad else 0


if __name__ == "__main__":
    sys.exit(main())
