"""C10 - a trailing query is an overlay, not a filter: k=v on a key that is already literal replaces the value,
and k=v on a search that unfolds into types with and without k returns entries that the unfiltered search
does not return.

Run: PYTHONPATH=/tmp/spilwt6/c05:/tmp/spilwt6/c05/spil_hamlet_conf /venv/bin/python repro_7.py
"""
import logging
import sys


def main():
    from spil import FindInList, Sid, setLevel
    from spil.sid.read.tools import unfold_search
    setLevel(logging.CRITICAL)

    entries = [
        "hamlet/a/char/ophelia/rig", "hamlet/a/char/ophelia/model",
        "hamlet/s/sq010/sh0010/fx/v001/w/abc",          # shot__cache_file
        "hamlet/s/sq010/sh0010/fx/v001/w/ma",           # shot__file
        "hamlet/s/sq010/sh0010/fx/v001/w/smoke/abc",    # shot__cache_node_file
    ]
    finder = FindInList(entries)
    bad = 0
    for search, key, value in [("hamlet/a/char/*/rig", "task", "model"),
                               ("hamlet/s/sq010/sh0010/fx/v001/w/*", "ext", "abc")]:
        base = list(finder.find(search, as_sid=False))
        filtered = list(finder.find(f"{search}?{key}={value}", as_sid=False))
        expected = [x for x in base if Sid(x).get(key) == value]
        print(f"find({search!r}) -> {base}")
        print(f"   searched types: {[s.type for s in unfold_search(search)]}")
        print(f"find({search + '?' + key + '=' + value!r}) -> {filtered}")
        print(f"   required (unfiltered results whose {key} == {value!r}): {expected}")
        if set(filtered) != set(expected):
            bad += 1
            print("   VIOLATION")
    return 1 if bad else 0


if __name__ == "__main__":
    sys.exit(main())
