"""C08 / C10 - FindInList(..., do_strip=True) on lines read from a file (the documented use of do_strip):
a literal last segment never matches, although the same search with '*' returns the entry;
and two entries that strip to the same string are returned twice.

Run: PYTHONPATH=/tmp/spilwt6/c05:/tmp/spilwt6/c05/spil_hamlet_conf /venv/bin/python repro_5.py
"""
import logging
import os
import sys
import tempfile


def main():
    from spil import FindInList, setLevel
    setLevel(logging.CRITICAL)

    with tempfile.TemporaryDirectory() as tmp:
        path = os.path.join(tmp, "sids.txt")
        with open(path, "w") as f:
            f.write("hamlet/a/char\nhamlet/a/prop\nhamlet/a/char/ophelia\n")
        with open(path) as f:
            lines = f.readlines()

    print("L (file lines):", lines)
    bad = 0
    star = list(FindInList(lines, do_strip=True).find("hamlet/a/*", as_sid=False))
    literal = list(FindInList(lines, do_strip=True).find("hamlet/a/char", as_sid=False))
    print("do_strip=True find('hamlet/a/*')    ->", star)
    print("do_strip=True find('hamlet/a/char') ->", literal)
    if "hamlet/a/char" in star and "hamlet/a/char" not in literal:
        bad += 1
        print("VIOLATION: replacing '*' by the literal 'char' does not return the subset having that value")
    exists = FindInList(lines, do_strip=True).exists("hamlet/a/char/ophelia")
    print("do_strip=True exists('hamlet/a/char/ophelia') ->", exists)

    dup_list = ["hamlet/a/char", "hamlet/a/char\n"]
    dup = list(FindInList(dup_list, do_strip=True).find("hamlet/a/*", as_sid=False))
    print(f"L = {dup_list!r} do_strip=True find('hamlet/a/*') ->", dup)
    if len(dup) != len(set(dup)):
        bad += 1
        print("VIOLATION: duplicate result")
    return 1 if bad else 0


if __name__ == "__main__":
    sys.exit(main())
