"""C08 - sid.match(s) is True although the Sid is NOT found by s in a list containing only itself
(last value equal to an extension alias; untyped Sid; empty Sid).

Run: PYTHONPATH=/tmp/spilwt6/c05:/tmp/spilwt6/c05/spil_hamlet_conf /venv/bin/python repro_3.py
"""
import logging
import sys


def main():
    from spil import FindInList, Sid, setLevel
    setLevel(logging.CRITICAL)

    cases = [
        ("hamlet/a/char/maya", "hamlet/a/char/maya"),                                  # asset named "maya"
        ("hamlet/a/char/maya", Sid("hamlet/a/char/maya")),                             # search given as Sid
        ("hamlet/a/char/o/rig/v001/w/movie", "hamlet/a/char/o/rig/v001/w/movie"),      # ext 'movie' is a legal ext value
        ("hamlet/s/sq010/sh0010/fx/v001/w/cache", "hamlet/s/sq010/sh0010/fx/v001/w/cache"),
        ("foo/bar", "foo/bar"),                                                        # untyped Sid
        ("", ""),                                                                      # empty Sid
        # controls (consistent)
        ("hamlet/a/char/maya", "hamlet/a/char/*"),
        ("hamlet/a/char/ophelia", "hamlet/a/char/ophelia"),
    ]
    bad = 0
    for string, search in cases:
        sid = Sid(string)
        matched = sid.match(search)
        found = sid.string in list(FindInList([sid.string]).find(search, as_sid=False))
        flag = "" if matched == found else "   <-- VIOLATION"
        bad += matched != found
        print(f"{sid!r:60} match({search!r}) = {matched} ; found by FindInList([itself]).find(...) = {found}{flag}")
    return 1 if bad else 0


if __name__ == "__main__":
    sys.exit(main())
