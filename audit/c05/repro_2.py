"""C10 - FindInConstants (a public Finder): values are not checked against the constants,
and a search below the constant level returns a Sid that does not match the search.

Run: PYTHONPATH=/tmp/spilwt6/c05:/tmp/spilwt6/c05/spil_hamlet_conf /venv/bin/python repro_2.py
"""
import logging
import sys


def main():
    from spil import FindInConstants, Sid, setLevel
    setLevel(logging.CRITICAL)

    projects = FindInConstants("project", ["hamlet"])
    types = FindInConstants("type", ["a", "s"], parent_source=projects)
    finder = FindInConstants("assettype", ["char", "prop"], parent_source=types)
    print("finder = FindInConstants('assettype', ['char', 'prop'], parent_source=types)")

    def find(f, s):
        r = list(f.find(s, as_sid=False))
        print(f"  find({s!r:28}) ->", r)
        return r

    star = find(finder, "hamlet/a/*")
    lit = find(finder, "hamlet/a/fx")
    fil = find(finder, "hamlet/a/*?assettype=fx")
    find(finder, "hamlet/a/char,fx")
    deep = find(finder, "hamlet/a/char/*")
    types_a = FindInConstants("type", ["a"], parent_source=projects)
    print("types_a = FindInConstants('type', ['a'], parent_source=projects)")
    t_star = find(types_a, "hamlet/*")

    bad = []
    if not set(lit) <= set(star):
        bad.append("literal 'fx' returns a Sid that 'hamlet/a/*' does not return")
    if set(fil) != {x for x in star if Sid(x).get("assettype") == "fx"}:
        bad.append("filter assettype=fx returns a Sid that the unfiltered search does not return")
    if any(len(x.split("/")) != 4 for x in deep):
        bad.append("a result of 'hamlet/a/char/*' does not match the search (3 segments for a 4 segment search)")
    if "hamlet/s" in t_star:
        bad.append("'hamlet/*' returns 'hamlet/s' although the only constant is 'a'")
    for b in bad:
        print("VIOLATION:", b)
    if not bad:
        print("no violation observed")
    return 1 if bad else 0


if __name__ == "__main__":
    sys.exit(main())
