"""C10 - an alias in an 'ext' filter that carries the optional sign '~' is not expanded:
'?ext=~maya' is not the union of '?ext=~ma' and '?ext=~mb' (while '?ext=maya' is).

Run: PYTHONPATH=/tmp/spilwt6/c05:/tmp/spilwt6/c05/spil_hamlet_conf /venv/bin/python repro_8.py
"""
import logging
import sys


def main():
    from spil import FindInList, setLevel
    setLevel(logging.CRITICAL)

    entries = ["hamlet/a/char/o/rig/v001/w/ma", "hamlet/a/char/o/rig/v001/w/mb",
               "hamlet/a/char/o/rig/v001/w/maya", "hamlet/a/char/o/rig/v001/w/abc"]
    finder = FindInList(entries)

    def find(s):
        r = list(finder.find(s, as_sid=False))
        print(f"find({s!r:32}) -> {r}")
        return set(r)

    print("L =", entries)
    plain = find("hamlet/a/**?ext=maya")
    alias = find("hamlet/a/**?ext=~maya")
    union = find("hamlet/a/**?ext=~ma") | find("hamlet/a/**?ext=~mb")
    if alias != union:
        print("VIOLATION: the alias does not equal the union of its member extensions:", sorted(alias), "vs", sorted(union))
        return 1
    print("no violation observed")
    return 0


if __name__ == "__main__":
    sys.exit(main())
