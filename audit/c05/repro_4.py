"""C08 - FindInList over a generator (explicitly allowed by the docstring for a single call):
a search that unfolds into several typed searches only gets the matches of the first one.

Run: PYTHONPATH=/tmp/spilwt6/c05:/tmp/spilwt6/c05/spil_hamlet_conf /venv/bin/python repro_4.py
"""
import logging
import sys


def main():
    from spil import FindInList, setLevel
    from spil.sid.read.tools import unfold_search
    setLevel(logging.CRITICAL)

    entries = ["hamlet/a/char", "hamlet/s/sq010", "hamlet/a/prop", "hamlet/s/sq020"]
    bad = 0
    for search in ["hamlet/*/*", "hamlet/a/char,prop", "hamlet/a,s/*"]:
        from_list = list(FindInList(entries).find(search, as_sid=False))
        from_gen = list(FindInList(x for x in entries).find(search, as_sid=False))  # fresh generator, one single call
        print("entries:", entries)
        print(f"  unfold_search({search!r}) -> {unfold_search(search)}")
        print(f"  FindInList(list).find      -> {from_list}")
        print(f"  FindInList(generator).find -> {from_gen}")
        if set(from_gen) != set(from_list):
            bad += 1
            print("  VIOLATION: entries matching the 2nd unfolded form are missing")
    return 1 if bad else 0


if __name__ == "__main__":
    sys.exit(main())
