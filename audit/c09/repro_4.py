"""C15: a created entity whose extension value is also an alias name ('maya', 'hou', 'movie', 'cache')
does not exist for FindInPaths and is not found by the search that is its own string."""
import sys
import shutil
from pathlib import Path


def demo_root():
    # import spil first (importing spil_fs_conf before spil changes the sid patterns)
    from spil import Sid
    p = Sid("hamlet").path("local")  # .../SPIL_PROJECTS/LOCAL/PROJECTS/HAMLET
    root = Path(p).parents[2]
    assert root.name == "SPIL_PROJECTS", root
    if root.exists():
        print("demo root already exists, refusing to run:", root)
        sys.exit(2)
    return root


def cleanup(root):
    shutil.rmtree(root, ignore_errors=True)


def main():
    root = demo_root()
    from spil import Sid, FindInPaths, WriteToPaths
    from spil.util.exception import SpilException
    violated = False
    try:
        w, f = WriteToPaths(), FindInPaths()
        for s in ["hamlet/a/char/ophelia/model/v001/w/maya",
                  "hamlet/a/char/ophelia/model/v001/w/movie",
                  "hamlet/s/sq001/sh0010/anim/v001/w/cache"]:
            sid = Sid(s)
            print("Sid:", repr(sid), "is_search:", sid.is_search(), "path:", sid.path().name)
            print("  create ->", w.create(s))
            ex = f.exists(s)
            own = list(f.find(s, as_sid=False))
            star = list(f.find(str(sid.parent) + "/*", as_sid=False))
            print("  FindInPaths.exists(sid)      ->", ex, "(required True)")
            print("  FindInPaths.find(sid)        ->", own, "(required [sid])")
            print("  FindInPaths.find(parent/*)   ->", star)
            try:
                w.create(s)
                print("  second create succeeded")
            except SpilException:
                print("  second create -> SpilException 'already exists'")
            if not ex or own != [s]:
                violated = True
    finally:
        cleanup(root)
    print("VIOLATION" if violated else "ok")
    return 1 if violated else 0


if __name__ == "__main__":
    sys.exit(main())
