"""C15: the sidecar written for 'hamlet/a/char/ophelia' makes the never created Sid
'hamlet/a/char/.ophelia.data.json' exist, be found and be updatable."""
import sys
import shutil
from pathlib import Path


def demo_root():
    # import spil first (importing spil_fs_conf before spil changes the sid patterns)
    from spil import Sid
    p = Sid("hamlet").path("local")  # .../SPIL_PROJECTS/LOCAL/PROJECTS/HAMLET
    root = Path(p).parents[2]
    assert root.name == "SPIL_PROJECTS", root
    if root.exists():
        print("demo root already exists, refusing to run:", root)
        sys.exit(2)
    return root


def cleanup(root):
    shutil.rmtree(root, ignore_errors=True)


def main():
    root = demo_root()
    from spil import Sid, FindInPaths, GetFromPaths, WriteToPaths
    from spil.util.exception import SpilException
    violated = False
    try:
        w, g, f = WriteToPaths(), GetFromPaths(), FindInPaths()
        real = "hamlet/a/char/ophelia"
        ghost = "hamlet/a/char/.ophelia.data.json"
        print("ghost Sid:", repr(Sid(ghost)), "path:", Sid(ghost).path())
        print("exists(ghost) before anything:", f.exists(ghost))
        print("create(real, {'k': 1}) ->", w.create(real, {"k": 1}))
        e = f.exists(ghost)
        print("exists(ghost) after create(real, data):", e, "(ghost was never created)")
        found = list(f.find("hamlet/a/char/.*", as_sid=False))
        print("find('hamlet/a/char/.*') ->", found)
        if e or ghost in found:
            violated = True
        try:
            r = w.update(ghost, {"z": 1})
            print("update(ghost, {'z': 1}) ->", r, "(required: SpilException, entity does not exist)")
            violated = True
        except SpilException as ex:
            print("update(ghost) raised SpilException", ex)
        print("files:", sorted(p.name for p in (root / "LOCAL/PROJECTS/HAMLET/PROD/ASSETS/char").iterdir()))
    finally:
        cleanup(root)
    print("VIOLATION" if violated else "ok")
    return 1 if violated else 0


if __name__ == "__main__":
    sys.exit(main())
