"""C15: two asset folders whose names contain a dot share one sidecar (".<text before last dot>.data.json")."""
import sys
import shutil
from pathlib import Path


def demo_root():
    # import spil first (importing spil_fs_conf before spil changes the sid patterns)
    from spil import Sid
    p = Sid("hamlet").path("local")  # .../SPIL_PROJECTS/LOCAL/PROJECTS/HAMLET
    root = Path(p).parents[2]
    assert root.name == "SPIL_PROJECTS", root
    if root.exists():
        print("demo root already exists, refusing to run:", root)
        sys.exit(2)
    return root


def cleanup(root):
    shutil.rmtree(root, ignore_errors=True)


def main():
    root = demo_root()
    from spil import Sid, GetFromPaths, WriteToPaths
    violated = False
    try:
        w, g = WriteToPaths(), GetFromPaths()
        a, b, c = "hamlet/a/char/mr.smith", "hamlet/a/char/mr.jones", "hamlet/a/char/mr"
        for s in (a, b, c):
            print("Sid", repr(Sid(s)), "-> path", Sid(s).path())
        print("create(a, {'owner': 'smith'}) ->", w.create(a, {"owner": "smith"}))
        print("create(b)                      ->", w.create(b))
        print("create(c)                      ->", w.create(c))
        db, dc = g.get_data(b), g.get_data(c)
        print("get_data(b) (nothing was ever written to b):", db)
        print("get_data(c) (nothing was ever written to c):", dc)
        if db != {"sid": b} or dc != {"sid": c}:
            violated = True
        print("set(b, 'owner', 'jones')       ->", w.set(b, "owner", "jones"))
        da = GetFromPaths().get_data(a)
        print("get_data(a) after writing to b only:", da)
        if da != {"owner": "smith", "sid": a}:
            violated = True
        print("sidecar files:", sorted(p.name for p in root.rglob(".*.json")))
    finally:
        cleanup(root)
    print("VIOLATION" if violated else "ok")
    return 1 if violated else 0


if __name__ == "__main__":
    sys.exit(main())
