"""C15 (and the 'reads of other Sids' clause of C17): an entity whose folder name is 246..255 characters long
can be created and is found, but its data can neither be read nor written (OSError, File name too long),
and a Getter search that includes it fails as a whole."""
import sys
import shutil
from pathlib import Path


def demo_root():
    # import spil first (importing spil_fs_conf before spil changes the sid patterns)
    from spil import Sid
    p = Sid("hamlet").path("local")  # .../SPIL_PROJECTS/LOCAL/PROJECTS/HAMLET
    root = Path(p).parents[2]
    assert root.name == "SPIL_PROJECTS", root
    if root.exists():
        print("demo root already exists, refusing to run:", root)
        sys.exit(2)
    return root


def cleanup(root):
    shutil.rmtree(root, ignore_errors=True)


def attempt(label, fn):
    try:
        r = fn()
        print(label, "->", (str(r)[:100]))
        return ("ok", r)
    except Exception as e:  # noqa
        print(label, "RAISED", type(e).__name__, str(e)[:60], "...")
        return ("raised", e)


def main():
    root = demo_root()
    from spil import Sid, FindInPaths, GetFromPaths, WriteToPaths
    from spil.util.exception import SpilException
    violated = False
    try:
        w, g, f = WriteToPaths(), GetFromPaths(), FindInPaths()
        short = "hamlet/a/char/ophelia"
        long_ = "hamlet/a/char/" + "x" * 250
        long2 = "hamlet/a/char/" + "y" * 250
        never = "hamlet/a/char/" + "z" * 300
        print("long_ = 'hamlet/a/char/' + 'x'*250 ; type:", Sid(long_).type)
        attempt("create(short, {'k': 1})", lambda: w.create(short, {"k": 1}))
        attempt("create(long_)", lambda: w.create(long_))
        attempt("FindInPaths.exists(long_)", lambda: f.exists(long_))
        attempt("FindInPaths.find('hamlet/a/char/*') count", lambda: len(list(f.find("hamlet/a/char/*"))))

        st, r = attempt("GetFromPaths.get_data(long_)", lambda: g.get_data(long_))
        if st == "raised" or r != {"sid": long_}:
            violated = True  # required: {'sid': long_}
        st, r = attempt("GetFromPaths.get('hamlet/a/char/*')", lambda: list(g.get("hamlet/a/char/*")))
        if st == "raised":
            violated = True  # the read of 'ophelia' fails too
        st, r = attempt("set(long_, 'k', 1)", lambda: w.set(long_, "k", 1))
        if st == "raised" and not isinstance(r, SpilException):
            violated = True
        st, r = attempt("create(long2, {'k': 1})", lambda: w.create(long2, {"k": 1}))
        st2, r2 = attempt("FindInPaths.exists(long2) after the failed create", lambda: f.exists(long2))
        st, r = attempt("update(never_created_300_chars, {'k': 1})", lambda: w.update(never, {"k": 1}))
        if st == "raised" and not isinstance(r, SpilException):
            print("  -> updating a non-existing entity did not fail with SpilException")
            violated = True
    finally:
        cleanup(root)
    print("VIOLATION" if violated else "ok")
    return 1 if violated else 0


if __name__ == "__main__":
    sys.exit(main())
