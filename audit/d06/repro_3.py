"""
C10 - a filter on 'ext' appended to an 8-segment shot search returns Sids that the unfiltered search does not return.
'hamlet/s/sq010/sh0010/anim/v003/w/*' unfolds to shot__file / movie_file / cache_file (ext='*') and shot__cache_node (node='*').
With '?ext=abc' the shot__cache_node search is re-typed to shot__cache_node_file 'w/*/abc' (9 segments).
FindInList, FindInPaths (both configurations) and FindInAll all answer the same.
Creates a small tree under spil_hamlet_conf/data/testing and removes it.
"""
import logging, shutil, sys
from pathlib import Path


def main():
    import spil
    from spil import Sid, FindInList, FindInPaths, FindInAll, WriteToPaths, setLevel
    from spil.sid.read.tools import unfold_search
    setLevel(logging.ERROR)

    leafs = ['hamlet/s/sq010/sh0010/anim/v003/w/abc',
             'hamlet/s/sq010/sh0010/anim/v003/w/ma',
             'hamlet/s/sq010/sh0010/anim/v003/w/cam/abc']
    L = leafs + ['hamlet/s/sq010/sh0010/anim/v003/w']
    root = Path(spil.__file__).parent.parent / 'spil_hamlet_conf' / 'data' / 'testing' / 'SPIL_PROJECTS'
    if root.exists():
        shutil.rmtree(root)
    bad = False
    try:
        for c in ('local', 'server'):
            for s in leafs:
                WriteToPaths(c).create(s)
        search = 'hamlet/s/sq010/sh0010/anim/v003/w/*'
        query = '?ext=abc'
        print('unfold', search, '->', [x.uri for x in unfold_search(search)])
        print('unfold', search + query, '->', [x.uri for x in unfold_search(search + query)])
        for name, f in [('FindInList', FindInList(L)), ('FindInPaths(local)', FindInPaths('local')), ('FindInPaths(server)', FindInPaths('server')), ('FindInAll', FindInAll())]:
            plain = list(f.find(search, as_sid=False))
            filtered = list(f.find(search + query, as_sid=False))
            required = [x for x in plain if Sid(x).get('ext') == 'abc']
            print(name)
            print('   unfiltered      ->', plain)
            print('   with ?ext=abc   ->', filtered)
            print('   required        ->', required)
            if sorted(filtered) != sorted(required):
                bad = True
            nomatch = [x for x in filtered if not Sid(x).match(search)]
            if nomatch:
                print('   results that do not match the search (Sid.match):', nomatch)
    finally:
        if root.exists():
            shutil.rmtree(root)
    print('VIOLATION' if bad else 'ok')
    return 1 if bad else 0


if __name__ == "__main__":
    sys.exit(main())
