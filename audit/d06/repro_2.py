"""
C10 - FindInConstants and a partial glob ("o*") on the key it serves.
A FindInConstants over an open-pattern key (here 'asset', values ophelia / hamlet / horatio, parent FindInPaths):
  'hamlet/a/char/o*'  -> ALL constants (also hamlet, horatio that do not match 'o*')
  'hamlet/a/*/o*'     -> nothing at all
so results do not match the search, and replacing the '*' of the 2nd search by 'char' does not give a subset.
Creates a small tree under spil_hamlet_conf/data/testing and removes it.
"""
import logging, shutil, sys
from pathlib import Path


def main():
    import spil
    from spil import Sid, FindInList, FindInPaths, FindInConstants, WriteToPaths, setLevel
    setLevel(logging.ERROR)

    root = Path(spil.__file__).parent.parent / 'spil_hamlet_conf' / 'data' / 'testing' / 'SPIL_PROJECTS'
    if root.exists():
        shutil.rmtree(root)
    bad = False
    try:
        w = WriteToPaths('local')
        for s in ['hamlet/a/char/ophelia/rig/v001/w/ma', 'hamlet/a/char/hamlet/rig/v001/w/ma', 'hamlet/a/prop/skull/rig/v001/w/ma']:
            w.create(s)

        fc = FindInConstants('asset', ['ophelia', 'hamlet', 'horatio'], parent_source=FindInPaths('local'))

        s1, s2 = 'hamlet/a/char/o*', 'hamlet/a/*/o*'
        r1 = list(fc.find(s1, as_sid=False))
        r2 = list(fc.find(s2, as_sid=False))
        print(f"FindInConstants('asset', [ophelia, hamlet, horatio]).find({s1!r}) -> {r1}")
        print(f"FindInConstants('asset', [ophelia, hamlet, horatio]).find({s2!r}) -> {r2}")
        nomatch = [x for x in r1 if not Sid(x).match(s1)]
        print("results of the 1st search that do not match it (Sid.match):", nomatch, " required: []")
        if nomatch:
            bad = True
        sub = {x for x in r2 if x.split('/')[2] == 'char'}
        print("subset law: find('hamlet/a/*/o*') restricted to assettype=char =", sorted(sub), " but find('hamlet/a/char/o*') =", sorted(r1))
        if sub != set(r1):
            bad = True
        # the same partial glob in the same position is honoured by the other Finders
        print("FindInPaths:", list(FindInPaths('local').find(s1, as_sid=False)), list(FindInPaths('local').find(s2, as_sid=False)))
    finally:
        if root.exists():
            shutil.rmtree(root)

    print('VIOLATION' if bad else 'ok')
    return 1 if bad else 0


if __name__ == "__main__":
    sys.exit(main())
