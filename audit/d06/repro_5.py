"""
C09 x C10 - the algebra of C10 does not hold for searches that carry '>', when the varied segment lies behind the '>'.
Pure FindInList (FindInPaths / FindInAll answer the same).
"""
import logging, sys


def main():
    from spil import Sid, FindInList, setLevel
    setLevel(logging.ERROR)

    L = ['hamlet/a/char/ophelia/rig/v001/w/ma',
         'hamlet/a/char/ophelia/rig/v001/w/mb',
         'hamlet/a/char/ophelia/rig/v002/p/ma']
    f = FindInList(L)
    find = lambda s: set(f.find(s, as_sid=False))
    base = 'hamlet/a/char/ophelia/rig/>/'
    bad = False

    # ',' list == union of its alternatives
    whole, union = find(base + 'w,p/ma'), find(base + 'w/ma') | find(base + 'p/ma')
    print("',' law   :", base + 'w,p/ma', '->', sorted(whole), '| union of alternatives ->', sorted(union))
    bad |= whole != union

    # alias == union of its members
    whole, union = find(base + 'w/maya'), find(base + 'w/ma') | find(base + 'w/mb')
    print("alias law :", base + 'w/maya', '->', sorted(whole), '| union of ma, mb ->', sorted(union))
    bad |= whole != union

    # replacing a '*' by a literal gives the subset having that value
    star, lit = find(base + '*/ma'), find(base + 'w/ma')
    print("subset law:", base + '*/ma', '->', sorted(star), '|', base + 'w/ma', '->', sorted(lit))
    bad |= lit != {x for x in star if x.split('/')[6] == 'w'}

    # filter k=v == results of the unfiltered search having k == v
    flt = find(base + '*/ma?state=w')
    print("filter law:", base + '*/ma?state=w', '->', sorted(flt), '| unfiltered results with state == w ->', sorted(x for x in star if Sid(x).get('state') == 'w'))
    bad |= flt != {x for x in star if Sid(x).get('state') == 'w'}

    print('VIOLATION' if bad else 'ok')
    return 1 if bad else 0


if __name__ == "__main__":
    sys.exit(main())
