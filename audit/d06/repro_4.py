"""
C10 - FindInList: a '**' search returns entries of a NON leaf type (shot__cache_node, which has as many segments as the file types),
and the filter / subset laws break on them.
"""
import logging, sys


def main():
    from spil import Sid, FindInList, conf, setLevel
    from spil.sid.read.tools import unfold_search
    setLevel(logging.ERROR)

    L = ['hamlet/s/sq010/sh0010/anim/v003/w',
         'hamlet/s/sq010/sh0010/anim/v003/w/ma',
         'hamlet/s/sq010/sh0010/anim/v003/w/cam',
         'hamlet/s/sq010/sh0010/anim/v003/w/cam/abc']
    f = FindInList(L)
    bad = False

    s = 'hamlet/s/sq010/sh0010/anim/v003/w/**'
    print('unfold_search ->', [x.uri for x in unfold_search(s)])
    r = list(f.find(s, as_sid=True))
    print(f'FindInList(L).find({s!r}) ->', [x.uri for x in r])
    non_leaf = [x.uri for x in r if x.keytype != conf.leaf_keys.get(x.basetype)]
    print("results whose type is not a leaf type:", non_leaf, " required: []")
    bad |= bool(non_leaf)

    rq = [str(x) for x in f.find(s + '?node=cam')]
    exp = [str(x) for x in r if x.get('node') == 'cam']
    print(f"filter law: find({s + '?node=cam'!r}) -> {rq} | unfiltered results with node == cam -> {exp}")
    bad |= sorted(rq) != sorted(exp)

    s2, s3 = 'hamlet/s/sq010/sh0010/anim/v003/w/*/**', 'hamlet/s/sq010/sh0010/anim/v003/w/cam/**'
    r2, r3 = [str(x) for x in f.find(s2)], [str(x) for x in f.find(s3)]
    exp3 = [x for x in r2 if x.split('/')[7] == 'cam']
    print(f"subset law: find({s2!r}) -> {r2}")
    print(f"            find({s3!r}) -> {r3} | required (the results above having 'cam' there): {exp3}")
    bad |= sorted(r3) != sorted(exp3)

    print('VIOLATION' if bad else 'ok')
    return 1 if bad else 0


if __name__ == "__main__":
    sys.exit(main())
