"""
C09 - '>' at a position that the configured search narrowing overwrites (the 'type' level).
unfold_search('hamlet/>') -> [asset:hamlet/a, shot:hamlet/s]: the narrowing query 'type=~a' / 'type=~s' replaces the '>' like it replaces a '*'.
Every Finder then answers TWO Sids for the single group ('hamlet',), and Sid('hamlet/s').get_last('type') is 'hamlet/a'.
No file system needed for the first part; the second part uses FindInAll (project and type levels are constants in the demo configuration).
"""
import logging, sys


def main():
    from spil import Sid, FindInList, FindInAll, setLevel
    from spil.sid.read.tools import unfold_search
    setLevel(logging.ERROR)

    bad = False
    L = ['hamlet', 'hamlet/a', 'hamlet/s', 'hamlet/a/char', 'hamlet/a/prop']

    print("unfold_search('hamlet/>')  ->", [s.uri for s in unfold_search('hamlet/>')])
    print("unfold_search('hamlet/a/>') ->", [s.uri for s in unfold_search('hamlet/a/>')])

    ref = list(FindInList(L).find('hamlet/a/>', as_sid=False))
    print("FindInList(L).find('hamlet/a/>') ->", ref, "(one per group, as required)")

    got = list(FindInList(L).find('hamlet/>', as_sid=False))
    print("FindInList(L).find('hamlet/>')   ->", got, " required: ['hamlet/s']")
    if got != ['hamlet/s']:
        bad = True

    got_all = list(FindInAll().find('hamlet/>', as_sid=False))
    print("FindInAll().find('hamlet/>')     ->", got_all, " required: ['hamlet/s']")
    if got_all != ['hamlet/s']:
        bad = True

    for s in ('hamlet/s', 'hamlet/a'):
        last = Sid(s).get_last('type')
        print(f"Sid({s!r}).get_last('type') -> {last!r}   required: Sid('shot:hamlet/s')")
        if str(last) != 'hamlet/s':
            bad = True

    print('VIOLATION' if bad else 'ok')
    return 1 if bad else 0


if __name__ == "__main__":
    sys.exit(main())
