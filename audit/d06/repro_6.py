"""
C10 / C09 - FindInList returns list entries that are not Sids of the configuration (untyped), also as the '>' answer.
"""
import logging, sys


def main():
    from spil import Sid, FindInList, setLevel
    setLevel(logging.ERROR)

    L = ['hamlet/a/char/ophelia/rig/v001',
         'hamlet/a/char/ophelia/rig/v002',
         'hamlet/a/char/ophelia/rig/v9999',      # no version of the configuration (v + 3 digits)
         'hamlet/a/char/ophelia/rig/wip']
    f = FindInList(L)
    bad = False
    for s in ['hamlet/a/char/ophelia/rig/*', 'hamlet/a/char/ophelia/rig/>']:
        r = list(f.find(s, as_sid=True))
        print(f'FindInList(L).find({s!r}) ->', [repr(x) for x in r])
        untyped = [str(x) for x in r if not x]
        print('   untyped results:', untyped, ' required: [] (every result is a typed Sid)')
        bad |= bool(untyped)
    print('VIOLATION' if bad else 'ok')
    return 1 if bad else 0


if __name__ == "__main__":
    sys.exit(main())
