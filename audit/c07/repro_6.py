"""
C12 - exists(s) is False although find(s) yields results, when the first result is falsy:
FindInList with an empty entry (eg. a blank line of a sid file read with do_strip=True).

Run: PYTHONPATH=/tmp/spilwt6/c07:/tmp/spilwt6/c07/spil_hamlet_conf /venv/bin/python repro_6.py
"""
import atexit
import logging
import os
import shutil
import tempfile


def _setup():
    home = tempfile.mkdtemp(prefix="spil_home_")
    os.environ["HOME"] = home  # spil writes ~/.spil/conf/user_conf.json at import
    atexit.register(shutil.rmtree, home, True)


def create(sids, config="local"):
    from spil import Sid, WriteToPaths
    created = []
    writer = WriteToPaths(config)
    for s in sids:
        p = Sid(s).path(config)
        q = p
        while not q.exists():
            created.append(q)
            q = q.parent
        writer.create(s)
    return created


def cleanup(created):
    for p in sorted(set(created), key=lambda x: len(x.parts), reverse=True):
        try:
            if p.is_dir():
                p.rmdir()
            elif p.exists():
                p.unlink()
        except OSError:
            pass


def main():
    _setup()
    from spil import Sid, FindInList
    from spil.util.log import setLevel
    setLevel(logging.ERROR)

    violated = False
    for L, kwargs in ((["", "hamlet"], {}), (["\n", "hamlet\n"], {"do_strip": True})):
        fl = FindInList(L, **kwargs)
        found = list(fl.find("*", as_sid=False))
        found_sids = list(fl.find("*"))
        print("FindInList(%r, %s)" % (L, kwargs))
        print("   find('*', as_sid=False):", found)
        print("   find('*')              :", found_sids)
        print("   exists('*')            :", fl.exists("*"))
        print("   find_one('*')          :", repr(fl.find_one("*")))
        if found and not fl.exists("*"):
            print("   VIOLATION: find yields %d results, exists is False" % len(found))
            violated = True
        if any(not s for s in found_sids):
            print("   (and a result is an untyped Sid)")
    return 1 if violated else 0


if __name__ == "__main__":
    raise SystemExit(main())
