"""
C11 - a search given in its uri form ('type:' prefix) is answered differently by FindInList
(string match, ignores the type) and by FindInPaths / FindInAll (only the forced type), on the same data.

Run: PYTHONPATH=/tmp/spilwt6/c07:/tmp/spilwt6/c07/spil_hamlet_conf /venv/bin/python repro_2.py
"""
import atexit
import logging
import os
import shutil
import tempfile


def _setup():
    home = tempfile.mkdtemp(prefix="spil_home_")
    os.environ["HOME"] = home  # spil writes ~/.spil/conf/user_conf.json at import
    atexit.register(shutil.rmtree, home, True)


def create(sids, config="local"):
    from spil import Sid, WriteToPaths
    created = []
    writer = WriteToPaths(config)
    for s in sids:
        p = Sid(s).path(config)
        q = p
        while not q.exists():
            created.append(q)
            q = q.parent
        writer.create(s)
    return created


def cleanup(created):
    for p in sorted(set(created), key=lambda x: len(x.parts), reverse=True):
        try:
            if p.is_dir():
                p.rmdir()
            elif p.exists():
                p.unlink()
        except OSError:
            pass


def main():
    _setup()
    from spil import Sid, FindInPaths, FindInAll, FindInList
    from spil.sid.read.tools import unfold_search
    from spil.util.log import setLevel
    setLevel(logging.ERROR)

    entities = ["hamlet/a/char/ophelia/model/v001/w/ma", "hamlet/a/char/ophelia/model/v001/w/mp4"]
    created = create(entities, "local") + create(entities, "server")
    violated = False
    try:
        search = "asset__movie_file:hamlet/a/char/ophelia/model/v001/w/*"
        print("entities (file tree and list):", entities)
        print("search                       :", search)
        print("unfold_search                :", unfold_search(search))
        results = {
            "FindInPaths('local')": sorted(FindInPaths("local").find(search, as_sid=False)),
            "FindInPaths('server')": sorted(FindInPaths("server").find(search, as_sid=False)),
            "FindInAll()": sorted(FindInAll().find(search, as_sid=False)),
            "FindInList(entities)": sorted(FindInList(entities).find(search, as_sid=False)),
        }
        for k, v in results.items():
            print(f"{k:<29}:", v)
        # same search, given as Sid object: the type is dropped by str() before unfolding
        print("FindInPaths().find(Sid(search)):", sorted(FindInPaths("local").find(Sid(search), as_sid=False)))
        if len({tuple(v) for v in results.values()}) != 1:
            print("VIOLATION: the Finders do not return the same set for the same data and search")
            violated = True
    finally:
        cleanup(created)
    return 1 if violated else 0


if __name__ == "__main__":
    raise SystemExit(main())
