"""
C12 - an existing asset whose name is also an extension alias ("maya", "hou", "movie", "cache")
does not exist() although it is found by searches, is listed in its own siblings(), and has existing children.

Run: PYTHONPATH=/tmp/spilwt6/c07:/tmp/spilwt6/c07/spil_hamlet_conf /venv/bin/python repro_1.py
"""
import atexit
import logging
import os
import shutil
import tempfile


def _setup():
    home = tempfile.mkdtemp(prefix="spil_home_")
    os.environ["HOME"] = home  # spil writes ~/.spil/conf/user_conf.json at import
    atexit.register(shutil.rmtree, home, True)


def create(sids, config="local"):
    from spil import Sid, WriteToPaths
    created = []
    writer = WriteToPaths(config)
    for s in sids:
        p = Sid(s).path(config)
        q = p
        while not q.exists():
            created.append(q)
            q = q.parent
        writer.create(s)
    return created


def cleanup(created):
    for p in sorted(set(created), key=lambda x: len(x.parts), reverse=True):
        try:
            if p.is_dir():
                p.rmdir()
            elif p.exists():
                p.unlink()
        except OSError:
            pass


def main():
    _setup()
    from spil import Sid, FindInPaths, FindInAll, FindInList
    from spil.util.log import setLevel
    setLevel(logging.ERROR)

    entities = ["hamlet/a/char/maya/model/v001/w/ma", "hamlet/a/char/ophelia/model/v001/w/ma"]
    created = create(entities)
    violated = False
    try:
        sid = Sid("hamlet/a/char/maya")
        print("created entities          :", entities)
        print("sid                       :", repr(sid), "is_search:", sid.is_search())
        print("folder exists on disk     :", sid.path().exists())
        found = [str(s) for s in FindInAll().find("hamlet/a/char/*")]
        print("FindInAll 'hamlet/a/char/*':", found)
        siblings = [str(s) for s in sid.siblings()]
        print("sid.siblings()            :", siblings)
        children = sid.children()
        print("sid.children()            :", children)
        print("children exist            :", [c.exists() for c in children])
        print("children's parent exists  :", [c.parent.exists() for c in children])
        print("sid.exists()              :", sid.exists())
        print("FindInPaths().exists(sid) :", FindInPaths().exists(sid))
        print("FindInList([sid]).exists  :", FindInList([str(sid)]).exists(sid))

        is_member = str(sid) in found and str(sid) in siblings
        if is_member and not sid.exists():
            print("VIOLATION: the Sid is a member of the existing entities, but exists() is False")
            violated = True
        if any(c.exists() and not c.parent.exists() for c in children):
            print("VIOLATION: an existing (file system backed) Sid has a parent that does not exist")
            violated = True
    finally:
        cleanup(created)
    return 1 if violated else 0


if __name__ == "__main__":
    raise SystemExit(main())
