"""
C11 / C12 - FindInConstants (the configured source of FindInAll for the "state" level) answers a literal value
without looking at anything: a state "exists" under a version that does not exist, although the same search with
a '*' above it finds nothing. Used directly, it also finds a value that is not one of its constants.

Run: PYTHONPATH=/tmp/spilwt6/c07:/tmp/spilwt6/c07/spil_hamlet_conf /venv/bin/python repro_4.py
"""
import atexit
import logging
import os
import shutil
import tempfile


def _setup():
    home = tempfile.mkdtemp(prefix="spil_home_")
    os.environ["HOME"] = home  # spil writes ~/.spil/conf/user_conf.json at import
    atexit.register(shutil.rmtree, home, True)


def create(sids, config="local"):
    from spil import Sid, WriteToPaths
    created = []
    writer = WriteToPaths(config)
    for s in sids:
        p = Sid(s).path(config)
        q = p
        while not q.exists():
            created.append(q)
            q = q.parent
        writer.create(s)
    return created


def cleanup(created):
    for p in sorted(set(created), key=lambda x: len(x.parts), reverse=True):
        try:
            if p.is_dir():
                p.rmdir()
            elif p.exists():
                p.unlink()
        except OSError:
            pass


def main():
    _setup()
    from spil import Sid, FindInPaths, FindInAll, FindInList, FindInConstants
    from spil.util.log import setLevel
    setLevel(logging.ERROR)

    entities = ["hamlet/a/char/ophelia/model/v001/w/ma"]
    created = create(entities)
    violated = False
    try:
        print("created:", entities, "(nothing else exists)")
        ghost_version = Sid("hamlet/a/char/ghost/model/v009")
        ghost_state = Sid("hamlet/a/char/ghost/model/v009/w")
        fa = FindInAll()
        a = list(fa.find("hamlet/a/char/ghost/model/v009/w", as_sid=False))
        b = list(fa.find("hamlet/a/char/*/model/v009/w", as_sid=False))
        c = list(fa.find("hamlet/a/char/ghost/model/v009/*", as_sid=False))
        d = list(fa.find("hamlet/a/char/ghost/model/*/*", as_sid=False))
        print("FindInAll 'hamlet/a/char/ghost/model/v009/w' :", a)
        print("FindInAll 'hamlet/a/char/*/model/v009/w'     :", b)
        print("FindInAll 'hamlet/a/char/ghost/model/v009/*' :", c)
        print("FindInAll 'hamlet/a/char/ghost/model/*/*'    :", d)
        print("ghost version exists()  :", ghost_version.exists())
        print("ghost version children():", ghost_version.children())
        print("ghost state exists()    :", ghost_state.exists(), " its parent exists():", ghost_state.parent.exists())
        # whatever list L "corresponds" to the data, FindInList cannot give both answers
        for L in ([], [str(ghost_state)]):
            fl = FindInList(L)
            print("FindInList(%s): literal -> %s   with '*' -> %s" % (L, list(fl.find("hamlet/a/char/ghost/model/v009/w", as_sid=False)), list(fl.find("hamlet/a/char/*/model/v009/w", as_sid=False))))
        if a and not b:
            print("VIOLATION: FindInAll finds the literal Sid, but not with a '*' in its place: no list gives both answers")
            violated = True
        if ghost_state.exists() and not ghost_state.parent.exists():
            print("VIOLATION: Sid exists, its parent (a file system backed version) does not; children() of a non existing Sid are not empty")
            violated = True

        # direct use: a value that is not a constant is found
        fc = FindInConstants("assettype", ["char", "prop"], parent_source=FindInConstants("type", ["a", "s"], parent_source=FindInConstants("project", ["hamlet"])))
        print("FindInConstants('assettype', ['char', 'prop']) 'hamlet/a/*'       :", list(fc.find("hamlet/a/*", as_sid=False)))
        print("FindInConstants('assettype', ['char', 'prop']) 'hamlet/a/location':", list(fc.find("hamlet/a/location", as_sid=False)), "exists:", fc.exists("hamlet/a/location"))
        if fc.exists("hamlet/a/location") and "hamlet/a/location" not in list(fc.find("hamlet/a/*", as_sid=False)):
            print("VIOLATION: a value that is not one of the constants is found")
            violated = True
    finally:
        cleanup(created)
    return 1 if violated else 0


if __name__ == "__main__":
    raise SystemExit(main())
