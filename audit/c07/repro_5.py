"""
C11 - FindInList over a list of Sids (Sid objects, e.g. the default output of another Finder) raises TypeError.

Run: PYTHONPATH=/tmp/spilwt6/c07:/tmp/spilwt6/c07/spil_hamlet_conf /venv/bin/python repro_5.py
"""
import atexit
import logging
import os
import shutil
import tempfile


def _setup():
    home = tempfile.mkdtemp(prefix="spil_home_")
    os.environ["HOME"] = home  # spil writes ~/.spil/conf/user_conf.json at import
    atexit.register(shutil.rmtree, home, True)


def create(sids, config="local"):
    from spil import Sid, WriteToPaths
    created = []
    writer = WriteToPaths(config)
    for s in sids:
        p = Sid(s).path(config)
        q = p
        while not q.exists():
            created.append(q)
            q = q.parent
        writer.create(s)
    return created


def cleanup(created):
    for p in sorted(set(created), key=lambda x: len(x.parts), reverse=True):
        try:
            if p.is_dir():
                p.rmdir()
            elif p.exists():
                p.unlink()
        except OSError:
            pass


def main():
    _setup()
    from spil import Sid, FindInPaths, FindInAll, FindInList
    from spil.util.log import setLevel
    setLevel(logging.ERROR)

    entities = ["hamlet/a/char/ophelia/model/v001/w/ma"]
    created = create(entities)
    violated = False
    try:
        existing = list(FindInPaths().find("hamlet/a/**"))  # default as_sid=True: Sid objects
        print("list of Sids:", existing)
        print("FindInPaths 'hamlet/a/char/*/model/v001/w/ma':", list(FindInPaths().find("hamlet/a/char/*/model/v001/w/ma")))
        try:
            print("FindInList  'hamlet/a/char/*/model/v001/w/ma':", list(FindInList(existing).find("hamlet/a/char/*/model/v001/w/ma")))
        except Exception as e:  # noqa
            print("FindInList  'hamlet/a/char/*/model/v001/w/ma': raises %s: %s" % (type(e).__name__, e))
            violated = True
        try:
            print("FindInList  exists(non-search Sid):", FindInList(existing).exists(existing[0]))
        except Exception as e:  # noqa
            print("FindInList  exists(non-search Sid): raises %s: %s" % (type(e).__name__, e))
            violated = True
    finally:
        cleanup(created)
    return 1 if violated else 0


if __name__ == "__main__":
    raise SystemExit(main())
