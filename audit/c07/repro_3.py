"""
C12 - a file system backed entity exists, but its parent does not:
the parent of a shot__cache_node_file is a shot__cache_node, a type without path template,
which no Finder finds. (The demo data hamlet.sids.txt contains 39 such files, and not one of their parents.)

Run: PYTHONPATH=/tmp/spilwt6/c07:/tmp/spilwt6/c07/spil_hamlet_conf /venv/bin/python repro_3.py
"""
import atexit
import logging
import os
import shutil
import tempfile


def _setup():
    home = tempfile.mkdtemp(prefix="spil_home_")
    os.environ["HOME"] = home  # spil writes ~/.spil/conf/user_conf.json at import
    atexit.register(shutil.rmtree, home, True)


def create(sids, config="local"):
    from spil import Sid, WriteToPaths
    created = []
    writer = WriteToPaths(config)
    for s in sids:
        p = Sid(s).path(config)
        q = p
        while not q.exists():
            created.append(q)
            q = q.parent
        writer.create(s)
    return created


def cleanup(created):
    for p in sorted(set(created), key=lambda x: len(x.parts), reverse=True):
        try:
            if p.is_dir():
                p.rmdir()
            elif p.exists():
                p.unlink()
        except OSError:
            pass


def main():
    _setup()
    from spil import Sid, FindInPaths, FindInAll
    from spil.util.log import setLevel
    setLevel(logging.ERROR)

    entities = ["hamlet/s/sq010/sh0010/anim/v001/p/lakeside/abc", "hamlet/s/sq010/sh0010/anim/v001/p/mb"]
    created = create(entities)
    violated = False
    try:
        sid = Sid(entities[0])
        print("created            :", entities)
        print("sid                :", repr(sid), "path exists:", sid.path().exists())
        print("sid.exists()       :", sid.exists())
        parent = sid.parent
        print("sid.parent         :", repr(parent), "path:", parent.path())
        print("parent.exists()    :", parent.exists())
        print("parent.children()  :", parent.children())
        print("parent.siblings()  :", parent.siblings())
        grand = parent.parent
        print("grand parent       :", repr(grand), "exists:", grand.exists())
        print("grand.children()   :", grand.children())
        print("FindInAll '.../p/*':", list(FindInAll().find(str(grand) + "/*")))
        # walking down with children() from the project never reaches the existing file
        reached, todo = set(), [Sid("hamlet")]
        while todo:
            s = todo.pop()
            for c in s.children():
                if str(c) not in reached:
                    reached.add(str(c))
                    todo.append(c)
        print("reached by walking children() from 'hamlet':", str(sid) in reached, "(mb file reached: %s)" % (entities[1] in reached))
        if sid.exists() and not parent.exists():
            print("VIOLATION: an existing file system backed Sid has a parent that does not exist")
            violated = True
    finally:
        cleanup(created)
    return 1 if violated else 0


if __name__ == "__main__":
    raise SystemExit(main())
