"""
C13 - spil.sid.core.utils.expand() / simple_typing() (the typing step of every search, both public functions of an
anchored module) return their typed Sids in an order that changes with the string-hash seed of the process:
the Sids that share one string are ordered by set iteration order.

Run as: PYTHONPATH=/tmp/spilwt7/d08:/tmp/spilwt7/d08/spil_hamlet_conf /venv/bin/python repro_3.py
Exits 1 when the violation is observed, 0 otherwise.
"""
import os
import subprocess
import sys

CHILD = r"""
import json, sys
from spil.sid.core.utils import expand, simple_typing
calls = {
    "expand('hamlet/s/sq010/sh0010/fx/v001/w/abc')": lambda: expand('hamlet/s/sq010/sh0010/fx/v001/w/abc'),
    "simple_typing('hamlet/s/sq010/sh0010/fx/v001/w/*')": lambda: simple_typing('hamlet/s/sq010/sh0010/fx/v001/w/*'),
    "expand('hamlet/a/char/ophelia/model/**', do_extrapolate=True)": lambda: expand('hamlet/a/char/ophelia/model/**', do_extrapolate=True),
    "expand('hamlet/s/sq010/**/abc')": lambda: expand('hamlet/s/sq010/**/abc'),
}
print("RESULT" + json.dumps({k: [s.uri for s in f()] for k, f in calls.items()}))
"""


def run(seed):
    env = dict(os.environ, PYTHONHASHSEED=str(seed))
    out = subprocess.run([sys.executable, "-W", "ignore", "-c", CHILD], env=env, capture_output=True, text=True).stdout
    line = [l for l in out.splitlines() if l.startswith("RESULT")][0]
    import json
    return json.loads(line[len("RESULT"):])


def main():
    results = {seed: run(seed) for seed in range(6)}
    violated = False
    for call in results[0]:
        orders = {}
        for seed, r in results.items():
            orders.setdefault(tuple(r[call]), []).append(seed)
        print("input:", call)
        for order, seeds in orders.items():
            print("   PYTHONHASHSEED in %s ->" % seeds, list(order))
        if len(orders) > 1:
            same_set = len({frozenset(o) for o in orders}) == 1
            print("   => %d different answers (same set of Sids: %s); required: one answer under any string-hash seed" % (len(orders), same_set))
            violated = True
        else:
            print("   => same answer under all seeds")
    print("VIOLATION" if violated else "no violation")
    return 1 if violated else 0


if __name__ == "__main__":
    sys.exit(main())
