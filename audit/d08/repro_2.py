"""
C15 - WriteToPaths.set(sid, value=...) (an attribute that is called "value", given like any other attribute as a
keyword) reports success and writes nothing: "value" is swallowed by the parameter of the same name.

Run as: PYTHONPATH=/tmp/spilwt7/d08:/tmp/spilwt7/d08/spil_hamlet_conf /venv/bin/python repro_2.py
Exits 1 when the violation is observed, 0 otherwise.
"""
import os
import shutil
import sys


def main():
    from spil import Sid, WriteToPaths, GetFromPaths
    import spil_fs_conf

    root = spil_fs_conf.project_root_path.parent.parent  # .../data/testing/SPIL_PROJECTS
    root_existed = root.exists()
    sid = "hamlet/a/prop/zzaudit%d" % os.getpid()
    violated = False
    try:
        writer = WriteToPaths()
        writer.create(sid)
        print("input: set(%r, comment='ok', value=5)" % sid)
        done = writer.set(sid, comment="ok", value=5)
        read = dict(GetFromPaths().get_data(sid))
        print("  returned:", done)
        print("  data read     :", read)
        print("  data required :", {"comment": "ok", "value": 5, "sid": sid})
        if read.get("value") != 5:
            violated = True
        print("input: set(%r, value=6) then set(%r, attribute='value', value=7)" % (sid, sid))
        writer.set(sid, value=6)
        print("  after the keyword form :", dict(GetFromPaths().get_data(sid)))
        writer.set(sid, attribute="value", value=7)
        print("  after the explicit form:", dict(GetFromPaths().get_data(sid)))
    finally:
        p = Sid(sid).path()
        shutil.rmtree(p, ignore_errors=True)
        side = p.with_name("." + p.name + ".data.json")
        if side.exists():
            side.unlink()
        if not root_existed:
            shutil.rmtree(root, ignore_errors=True)
        else:
            p = p.parent
            while p != root and p.exists() and not any(p.iterdir()):
                p.rmdir()
                p = p.parent
    print("VIOLATION" if violated else "no violation")
    return 1 if violated else 0


if __name__ == "__main__":
    sys.exit(main())
