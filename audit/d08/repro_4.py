"""
C13 - FindInList keeps state between read-only calls: star_search(..., do_sort=True) (a parameter of the public
star_search of every glob Finder) replaces the Finder's list by a sorted, de-duplicated COPY. Afterwards find() /
find_one() on unchanged data answer differently than before (and than a fresh Finder), and changes of the list
are no longer reflected.

Run as: PYTHONPATH=/tmp/spilwt7/d08:/tmp/spilwt7/d08/spil_hamlet_conf /venv/bin/python repro_4.py
Exits 1 when the violation is observed, 0 otherwise.
"""
import sys


def main():
    from spil import FindInList
    from spil.sid.read.tools import unfold_search

    data = ["hamlet/a/char/zed", "hamlet/a/char/abe", "hamlet/a/char/mid"]
    search = "hamlet/a/char/*"
    finder = FindInList(data)
    print("list  :", data)
    print("search:", search)

    before = (finder.find_one(search, as_sid=False), list(finder.find(search, as_sid=False)))
    print("before                      find_one / find:", before)

    # a read-only call about something else (props: nothing matches)
    other = list(finder.star_search(unfold_search("hamlet/a/prop/*"), as_sid=False, do_sort=True))
    print("star_search('hamlet/a/prop/*', do_sort=True) ->", other)

    after = (finder.find_one(search, as_sid=False), list(finder.find(search, as_sid=False)))
    fresh = (FindInList(data).find_one(search, as_sid=False), list(FindInList(data).find(search, as_sid=False)))
    print("after                       find_one / find:", after)
    print("fresh Finder on same list   find_one / find:", fresh)

    data.append("hamlet/a/char/new")
    reflected = "hamlet/a/char/new" in list(finder.find(search, as_sid=False))
    reflected_fresh = "hamlet/a/char/new" in list(FindInList(data).find(search, as_sid=False))
    control = FindInList(data)
    data.append("hamlet/a/char/new2")
    reflected_control = "hamlet/a/char/new2" in list(control.find(search, as_sid=False))
    print("entry appended to the list is found: same Finder %s / Finder never asked with do_sort %s" % (reflected, reflected_control))

    violated = before != after or (reflected_control and not reflected)
    print("VIOLATION" if violated else "no violation")
    return 1 if violated else 0


if __name__ == "__main__":
    sys.exit(main())
