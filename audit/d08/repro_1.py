"""
C15 - a data dictionary given as a non-dict Mapping (the declared type of Writer.update / Writer.create is
"Mapping[str, Any]") is written to the sidecar as a JSON *string*: the write reports success, then every read of
that Sid, every later set / update on it, and every Getter search that meets the Sid raises.

Run as: PYTHONPATH=/tmp/spilwt7/d08:/tmp/spilwt7/d08/spil_hamlet_conf /venv/bin/python repro_1.py
Exits 1 when the violation is observed, 0 otherwise.
"""
import os
import shutil
import sys
import types
import collections


def main():
    from spil import Sid, WriteToPaths, GetFromPaths, FindInPaths
    import spil_fs_conf

    root = spil_fs_conf.project_root_path.parent.parent  # .../data/testing/SPIL_PROJECTS
    root_existed = root.exists()
    tag = "zzaudit%d" % os.getpid()
    assettype = Sid("hamlet/a/prop")
    created = []
    violated = False
    try:
        writer, getter = WriteToPaths(), GetFromPaths()
        cases = [
            ("update", types.MappingProxyType({"comment": "hello"})),
            ("update", collections.UserDict(comment="hello")),
            ("create", collections.ChainMap({"comment": "hello"})),
        ]
        neighbour = "hamlet/a/prop/%sn" % tag
        writer.create(neighbour, {"comment": "neighbour"})
        created.append(neighbour)
        for i, (how, data) in enumerate(cases):
            sid = "hamlet/a/prop/%s%d" % (tag, i)
            print("\ninput: WriteToPaths().%s(%r, %r)" % (how, sid, data))
            if how == "create":
                done = writer.create(sid, data)
            else:
                writer.create(sid)
                done = writer.update(sid, data)
            created.append(sid)
            print("  write returned:", done)
            sidecar = Sid(sid).path().with_name("." + Sid(sid).path().name + ".data.json")
            print("  sidecar content:", sidecar.read_text())
            expected = {"comment": "hello", "sid": sid}
            try:
                read = getter.get_data(sid)
                print("  GetFromPaths().get_data ->", read, "(required: %s)" % expected)
                if dict(read) != expected:
                    violated = True
            except Exception as e:
                print("  GetFromPaths().get_data raises %s: %s   (required: %s)" % (type(e).__name__, e, expected))
                violated = True
            try:
                print("  next set(extra=1) ->", writer.set(sid, extra=1))
            except Exception as e:
                print("  next set(extra=1) raises %s: %s   (required: success)" % (type(e).__name__, e))
                violated = True
        search = "hamlet/a/prop/%s*" % tag
        try:
            print("\nGetFromPaths().get(%r) ->" % search, list(getter.get(search)))
        except Exception as e:
            print("\nGetFromPaths().get(%r) raises %s: %s   (required: one record per found Sid, incl. the untouched neighbour)" % (search, type(e).__name__, e))
            violated = True
    finally:
        # clean up what was created
        for sid in created:
            p = Sid(sid).path()
            shutil.rmtree(p, ignore_errors=True)
            for extra in (p.with_name("." + p.name + ".data.json"), p.with_name("." + p.name + ".data.json.tmp")):
                if extra.exists():
                    extra.unlink()
        if not root_existed:
            shutil.rmtree(root, ignore_errors=True)
        else:
            p = assettype.path()
            while p != root and p.exists() and not any(p.iterdir()):
                p.rmdir()
                p = p.parent
    print("\nVIOLATION" if violated else "\nno violation")
    return 1 if violated else 0


if __name__ == "__main__":
    sys.exit(main())
