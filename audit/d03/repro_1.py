"""
C05 - a configured root folder that contains '..' (eg. Path(__file__).parent / '..' / 'PROJECTS')
makes path() return None for EVERY Sid of that path configuration.

The only thing changed against the demo configuration is the spelling of the root folder.
"""
import os
import subprocess
import sys
import tempfile
import shutil

WT = "/tmp/spilwt7/d03"
DEMO = WT + "/spil_hamlet_conf"

CHILD = r'''
import json, sys
from spil import Sid
out = {}
for s in ["hamlet", "hamlet/a/char/ophelia", "hamlet/a/char/ophelia/model/v001/w/ma", "hamlet/s/sq010/sh0010/anim/v001/p/mov"]:
    sid = Sid(s)
    row = {"type": sid.type}
    for c in ("local", "server"):
        p = sid.path(c)
        back = Sid(path=p, config=c)
        row[c] = [None if p is None else str(p), back.uri, back == sid]
    out[s] = row
import spil_fs_conf
out["__root__"] = str(spil_fs_conf.project_root_path)
print("RESULT" + json.dumps(out))
'''


def run_with_root(tmp, root_expr):
    confdir = os.path.join(tmp, "conf")
    os.makedirs(confdir, exist_ok=True)
    src = open(DEMO + "/spil_fs_conf.py").read()
    marker = 'project_root_path = Path(__file__).parent / "data" / "testing" / "SPIL_PROJECTS" / "LOCAL" / "PROJECTS"'
    assert marker in src
    src = src.replace(marker, "project_root_path = " + root_expr)
    with open(os.path.join(confdir, "spil_fs_conf.py"), "w") as f:
        f.write(src)
    src = open(DEMO + "/spil_fs_server_conf.py").read()
    marker = 'project_server_root_path = Path(__file__).parent / "data" / "testing" / "SPIL_PROJECTS" / "SERVER" / "PROJECTS"'
    assert marker in src
    src = src.replace(marker, "project_server_root_path = " + root_expr.replace("LOCAL", "SERVER"))
    with open(os.path.join(confdir, "spil_fs_server_conf.py"), "w") as f:
        f.write(src)
    env = dict(os.environ)
    env["PYTHONPATH"] = os.pathsep.join([confdir, WT, DEMO])
    r = subprocess.run([sys.executable, "-W", "ignore", "-c", CHILD], env=env, capture_output=True, text=True)
    for line in r.stdout.splitlines():
        if line.startswith("RESULT"):
            import json
            return json.loads(line[len("RESULT"):])
    raise RuntimeError(r.stdout + r.stderr)


def main():
    tmp = tempfile.mkdtemp(prefix="spil_audit_")
    try:
        plain = run_with_root(tmp, 'Path(__file__).parent.parent / "LOCAL" / "PROJECTS"')
        dotdot = run_with_root(tmp, 'Path(__file__).parent / ".." / "LOCAL" / "PROJECTS"')
    finally:
        shutil.rmtree(tmp, ignore_errors=True)

    violated = False
    for name, res in (("root spelled without '..'", plain), ("root spelled with '..'", dotdot)):
        print("=== %s : %s" % (name, res.pop("__root__")))
        for s, row in res.items():
            for c in ("local", "server"):
                p, back, same = row[c]
                print("  Sid(%r) [%s] .path(%r) -> %s ; Sid(path=...) -> %r ; equal: %s" % (s, row["type"], c, p, back, same))
                if name.endswith("with '..'") and (p is None or not same):
                    violated = True
    print()
    print("VIOLATION (typed Sids with a path template have path None)" if violated else "no violation")
    return 1 if violated else 0


if __name__ == "__main__":
    sys.exit(main())
