"""
C05 (by the letter of the statement; the behaviour is the deliberate outcome of repairs e1e16da / 72ea3f5):
concrete typed Sids whose type HAS a path template, but whose path() is None in both configurations,
so that Sid(path=sid.path(c), config=c) is the empty Sid and not the Sid.
"""
import sys
from spil import Sid
from resolva import Resolver
from spil.sid.pathops.pathconfig import get_path_config


def main():
    violated = False
    for string in ["hamlet/a/char/.", "hamlet/a/char/..", "hamlet/a/char//model", "hamlet/a/prop/./rig/v001/w/ma"]:
        sid = Sid(string)
        for c in ("local", "server"):
            get_path_config(c)
            has_template = sid.type in Resolver.get(c).get_labels()
            p = sid.path(c)
            back = Sid(path=p, config=c)
            print("Sid(%r): type=%r concrete=%s template_in_%s=%s path=%r Sid(path=..)=%r equal=%s"
                  % (string, sid.type, not sid.is_search(), c, has_template, p, back, back == sid))
            if sid and not sid.is_search() and has_template and (p is None or back != sid):
                violated = True
    print("VIOLATION of the letter of C05" if violated else "no violation")
    return 1 if violated else 0


if __name__ == "__main__":
    sys.exit(main())
