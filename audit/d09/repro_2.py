"""
C20 - "Nothing in the library depends on the demo configuration's key names".
The demo configuration is copied to a temporary directory and its key 'version' is renamed to 'ver'
(in spil_sid_conf, spil_fs_conf, spil_data_conf and in the configured "next" Getter plugin) - nothing else changes.
Typing, paths, searches and get_last('ver') work, the configured Getter answers the attribute 'next.ver',
but Sid.get_next('ver') and Sid.get_new('ver') raise NotImplementedError: spil/sid/sid.py hard-codes the demo's key name "version".
Run: PYTHONPATH=/tmp/spilwt7/d09:/tmp/spilwt7/d09/spil_hamlet_conf /venv/bin/python repro_2.py
"""
import os
import re
import shutil
import subprocess
import sys
import tempfile
from pathlib import Path

LIB = "/tmp/spilwt7/d09"
DEMO = LIB + "/spil_hamlet_conf"

CHILD = r'''
import sys
from spil import Sid, FindInList, GetFromAll, WriteToPaths
sid = Sid("hamlet/a/char/ophelia/model/v001/w/ma")
print("typed:", repr(sid), "fields:", sid.fields)
print("path round trip:", Sid(path=sid.path()) == sid)
for s in ["hamlet/a/char/ophelia/model/v001/w/ma", "hamlet/a/char/ophelia/model/v002/w/ma"]:
    WriteToPaths().create(s)
print("get_last('ver'):", repr(sid.get_last("ver")))
print("configured getter, GetFromAll().get_attr(sid, 'next.ver'):", repr(GetFromAll().get_attr(sid, "next.ver")))
bad = 0
for name in ("get_next", "get_new"):
    try:
        print(f"sid.{name}('ver') ->", repr(getattr(sid, name)("ver")))
    except NotImplementedError as e:
        print(f"sid.{name}('ver') RAISES NotImplementedError: {e}")
        bad += 1
print("expected: get_next('ver') == hamlet/a/char/ophelia/model/v002/w/ma, get_new('ver') == .../v003/w/ma")
sys.exit(1 if bad else 0)
'''


def main():
    tmp = Path(tempfile.mkdtemp(prefix="spil_audit_"))
    try:
        conf = tmp / "conf"
        shutil.copytree(DEMO, conf, ignore=shutil.ignore_patterns("data", "__pycache__", "hamlet_tests", "hamlet_scripts"))
        for file in list(conf.glob("*.py")) + list(conf.glob("hamlet_plugins/*.py")):
            text = file.read_text()
            text = re.sub(r"\bversion\b", "ver", text)  # the key name (also "next.version" -> "next.ver")
            file.write_text(text)
        # the project files go to the temporary directory
        fs = conf / "spil_fs_conf.py"
        fs.write_text(fs.read_text().replace('Path(__file__).parent / "data"', f'Path({str(tmp)!r}) / "data"'))
        env = dict(os.environ, PYTHONPATH=f"{conf}:{LIB}")
        done = subprocess.run([sys.executable, "-c", CHILD], env=env, capture_output=True, text=True)
        print("configuration: demo configuration with the key 'version' renamed to 'ver'")
        for line in (done.stdout + done.stderr).splitlines():
            if "Resolver" in line or "SyntaxWarning" in line or line.strip() == '"""':
                continue
            print(line)
        return 1 if done.returncode else 0
    finally:
        shutil.rmtree(tmp, ignore_errors=True)


if __name__ == "__main__":
    sys.exit(main())
