"""
C20 / C07 - "a string without '**' takes every type whose template accepts it" must hold for any well-formed configuration.
The demo configuration is copied to a temporary directory with one change: to_extrapolate = []  (the intermediate
levels asset__version, asset__task ... get no type of their own; every configured type, template and pattern is unchanged).
spil.sid.core.utils.simple_typing() types the text before the first '/*' and, when THAT prefix has no type,
falls back to [Sid(search)] - the first matching type only - instead of every type whose template accepts the search.
So the set of types depends on where the first '*' stands, and FindInPaths misses the movie file that FindInList finds.
Run: PYTHONPATH=/tmp/spilwt7/d09:/tmp/spilwt7/d09/spil_hamlet_conf /venv/bin/python repro_3.py
"""
import os
import shutil
import subprocess
import sys
import tempfile
from pathlib import Path

LIB = "/tmp/spilwt7/d09"
DEMO = LIB + "/spil_hamlet_conf"

CHILD = r'''
import sys
from spil import Sid, FindInList, FindInPaths, WriteToPaths, conf
from spil.sid.read.tools import unfold_search
from resolva import Resolver
entities = ["hamlet/a/char/ophelia/model/v001/w/ma", "hamlet/a/char/ophelia/model/v001/w/mov"]
for s in entities:
    WriteToPaths().create(s)
print("configured types:", list(conf.sid_templates))
bad = 0
for search in ["hamlet/a/char/ophelia/model/v001/w/*", "hamlet/a/char/ophelia/model/v001/*/*", "hamlet/a/char/ophelia/model/*/w/*"]:
    accepted = sorted(Resolver.get("sid").resolve_all(search))   # every type whose template accepts the string
    unfolded = unfold_search(search)
    in_list = sorted(FindInList(entities).find(search, as_sid=False))
    in_paths = sorted(FindInPaths().find(search, as_sid=False))
    print("search:", search)
    print("   types whose template accepts it:", accepted)
    print("   unfold_search ->", unfolded)
    print("   FindInList  ->", in_list)
    print("   FindInPaths ->", in_paths)
    if sorted(s.type for s in unfolded) != accepted or in_list != in_paths:
        bad += 1
print("expected: unfold_search gives one typed search per accepting type (3), and both Finders find the .ma and the .mov")
sys.exit(1 if bad else 0)
'''


def main():
    tmp = Path(tempfile.mkdtemp(prefix="spil_audit_"))
    try:
        conf = tmp / "conf"
        shutil.copytree(DEMO, conf, ignore=shutil.ignore_patterns("data", "__pycache__", "hamlet_tests", "hamlet_scripts"))
        sid_conf = conf / "spil_sid_conf.py"
        text = sid_conf.read_text()
        assert "to_extrapolate = ['asset__state', 'shot__state']" in text
        sid_conf.write_text(text.replace("to_extrapolate = ['asset__state', 'shot__state']", "to_extrapolate = []"))
        fs = conf / "spil_fs_conf.py"
        fs.write_text(fs.read_text().replace('Path(__file__).parent / "data"', f'Path({str(tmp)!r}) / "data"'))
        env = dict(os.environ, PYTHONPATH=f"{conf}:{LIB}")
        done = subprocess.run([sys.executable, "-c", CHILD], env=env, capture_output=True, text=True)
        print("configuration: demo configuration with to_extrapolate = []")
        for line in (done.stdout + done.stderr).splitlines():
            if "Resolver" in line or "SyntaxWarning" in line or line.strip() == '"""':
                continue
            print(line)
        return 1 if done.returncode else 0
    finally:
        shutil.rmtree(tmp, ignore_errors=True)


if __name__ == "__main__":
    sys.exit(main())
