"""
C20 - "Nothing in the library depends on the demo configuration's ... separators".
The demo configuration (spil_sid_conf.py) sets the Sid separator:  sip = '/'  # sid separator.
The demo configuration is copied to a temporary directory, sip is set to '!' and the Sid templates are written
with that separator ('{project}!{type:a}!{assettype}...'); nothing else changes.
The library honours conf.sip in some places (Sid.__truediv__, or_op, extensions) and hard-codes '/' in the others
(conf.util.extrapolate_templates, core.utils.expand / simple_typing / extrapolate, FindInList.glob2re, sorted_search,
Sid.get_with, resolva's default value pattern [^/]*): the hierarchy, the unfolding and the searches do not work.
Run: PYTHONPATH=/tmp/spilwt7/d09:/tmp/spilwt7/d09/spil_hamlet_conf /venv/bin/python repro_5.py
"""
import os
import shutil
import subprocess
import sys
import tempfile
from pathlib import Path

LIB = "/tmp/spilwt7/d09"
DEMO = LIB + "/spil_hamlet_conf"

CHILD = r'''
import sys
from spil import Sid, FindInList, conf
from spil.sid.read.tools import unfold_search
print("conf.sip:", repr(conf.sip), " configured types:", list(conf.sid_templates))
leaf = Sid("hamlet!a!char!ophelia!model!v001!w!ma")
asset = Sid("hamlet!a!char!ophelia")
print("leaf :", repr(leaf), "len", len(leaf))
print("asset:", repr(asset), " (typed: %s)" % bool(asset))
print("leaf.parent:", repr(leaf.parent), " leaf.get_as('asset'):", repr(leaf.get_as("asset")))
print("Sid('hamlet!a!char!oph/elia!model!v001!w!ma') typed:", bool(Sid("hamlet!a!char!oph/elia!model!v001!w!ma")), "(a value containing '/', which is no separator any more)")
entities = ["hamlet!a!char!ophelia!model!v001!w!ma", "hamlet!a!char!ophelia!model!v001!w!mov"]
bad = 0
for search in ["hamlet!a!char!ophelia!model!v001!w!*", "hamlet!a!**!ma", "hamlet!a!char!ophelia!model!v001!w!ma,mov"]:
    try:
        unfolded = unfold_search(search)
        found = sorted(FindInList(entities).find(search, as_sid=False))
    except Exception as e:
        unfolded = found = f"{type(e).__name__}: {e}"
    print("search", search, "-> unfold:", unfolded, " FindInList:", found)
if not asset or leaf.parent != "hamlet!a!char!ophelia!model!v001!w" or not leaf.get_as("asset"):
    bad += 1
print("expected: every level typed (asset__asset ...), parent / get_as navigate, the searches find the entities")
sys.exit(1 if bad else 0)
'''


def main():
    tmp = Path(tempfile.mkdtemp(prefix="spil_audit_"))
    try:
        conf = tmp / "conf"
        shutil.copytree(DEMO, conf, ignore=shutil.ignore_patterns("data", "__pycache__", "hamlet_tests", "hamlet_scripts"))
        sid_conf = conf / "spil_sid_conf.py"
        text = sid_conf.read_text()
        assert "sip = '/'" in text
        text = text.replace("sip = '/'", "sip = '!'").replace("}/{", "}!{")
        sid_conf.write_text(text)
        env = dict(os.environ, PYTHONPATH=f"{conf}:{LIB}")
        done = subprocess.run([sys.executable, "-c", CHILD], env=env, capture_output=True, text=True)
        print("configuration: demo configuration with sip = '!' and '!' between the placeholders of the Sid templates")
        for line in (done.stdout + done.stderr).splitlines():
            if "Resolver" in line or "SyntaxWarning" in line or line.strip() == '"""':
                continue
            print(line)
        return 1 if done.returncode else 0
    finally:
        shutil.rmtree(tmp, ignore_errors=True)


if __name__ == "__main__":
    sys.exit(main())
