"""
C20 - a configuration that simply has no extension aliases / no search narrowing cannot even be imported.
spil/conf/sid_conf_load.py declares stubs for the optional names ("stubs that are replaced by imports":
extension_alias = {}, basetyped_search_narrowing = {}, to_extrapolate = [] ...), but builds __all__ only from the
names that the configuration module defines, so "from spil.conf.sid_conf_load import *" never exports a stub.
typed_search_narrowing (called "not implemented yet" by the demo configuration) has no stub at all.
The demo configuration is copied to a temporary directory and ONE of these optional dictionaries is removed.
Run: PYTHONPATH=/tmp/spilwt7/d09:/tmp/spilwt7/d09/spil_hamlet_conf /venv/bin/python repro_4.py
"""
import os
import re
import shutil
import subprocess
import sys
import tempfile
from pathlib import Path

LIB = "/tmp/spilwt7/d09"
DEMO = LIB + "/spil_hamlet_conf"

CHILD = r'''
from spil import Sid, FindInList
sid = Sid("hamlet/a/char/ophelia/model/v001/w/ma")
assert sid.type == "asset__file", sid.type
assert list(FindInList([sid.string]).find("hamlet/a/**/ma", as_sid=False)) == [sid.string]
print("OK: typed", repr(sid), "and found by hamlet/a/**/ma")
'''

REMOVALS = {
    "typed_search_narrowing": r"(?ms)^typed_search_narrowing = \{.*?^\}\n",
    "extension_alias": r"(?ms)^extension_alias = \{.*?^\}\n",
    "basetyped_search_narrowing": r"(?ms)^basetyped_search_narrowing = \{.*?^\}\n",
    "nothing (control)": None,
}


def main():
    violated = 0
    for name, regex in REMOVALS.items():
        tmp = Path(tempfile.mkdtemp(prefix="spil_audit_"))
        try:
            conf = tmp / "conf"
            shutil.copytree(DEMO, conf, ignore=shutil.ignore_patterns("data", "__pycache__", "hamlet_tests", "hamlet_scripts"))
            sid_conf = conf / "spil_sid_conf.py"
            text = sid_conf.read_text()
            if regex:
                new_text, count = re.subn(regex, "", text)
                assert count == 1, name
            else:  # control: nothing removed
                new_text = text
            sid_conf.write_text(new_text)
            env = dict(os.environ, PYTHONPATH=f"{conf}:{LIB}")
            done = subprocess.run([sys.executable, "-c", CHILD], env=env, capture_output=True, text=True)
            lines = [l for l in (done.stdout + done.stderr).splitlines() if l.startswith(("OK", "ImportError", "Exception: Spil"))]
            print(f"removed from the demo configuration: {name!s:28.28} -> exit {done.returncode}: {(lines or ['?'])[0][:160]}")
            if regex and done.returncode:
                violated += 1
        finally:
            shutil.rmtree(tmp, ignore_errors=True)
    print("expected: OK in every case (a configuration without aliases / narrowing is typed and searched like any other)")
    return 1 if violated else 0


if __name__ == "__main__":
    sys.exit(main())
