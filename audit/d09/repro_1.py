"""
C17 - reading the data of a Sid whose sidecar cannot be accessed must return just the 'sid' entry.
GetFromPaths.get_data raises OSError (ENAMETOOLONG) for a Sid with a value longer than 255 characters,
as soon as the parent folder exists: spil_data_conf.get_data_json_path() calls sid_path.is_file(),
and getter_paths.get_data() calls get_data_json_path() OUTSIDE its try block.
(The repaired case - a 250 character name, whose sidecar name alone is too long - still answers {'sid': ...}.)
Creates hamlet/a/char/zzaudit under spil_hamlet_conf/data/testing and removes what it created.
Run: PYTHONPATH=/tmp/spilwt7/d09:/tmp/spilwt7/d09/spil_hamlet_conf /venv/bin/python repro_1.py
"""
import sys
import shutil
from pathlib import Path


def main():
    from spil import Sid, GetFromPaths, GetFromAll, WriteToPaths
    import spil_fs_conf  # noqa

    testing = Path(spil_fs_conf.__file__).parent / "data" / "testing"
    top = testing / "SPIL_PROJECTS"
    existed = top.exists()
    neighbour = Sid("hamlet/a/char/zzaudit")
    created = None
    violated = False
    try:
        if not neighbour.path().exists():
            WriteToPaths().create(neighbour, {"comment": "neighbour"})  # makes the folder .../ASSETS/char exist
            created = neighbour.path()
        for n in (250, 300):
            sid = Sid("hamlet/a/char/" + "x" * n)
            print(f"input: Sid('hamlet/a/char/' + 'x'*{n})  typed: {sid.type!r}")
            for label, call in (
                ("GetFromPaths().get_data(sid)", lambda: GetFromPaths().get_data(sid)),
                ("GetFromPaths().get_attr(sid, 'comment')", lambda: GetFromPaths().get_attr(sid, "comment")),
                ("GetFromAll().get_data(sid)", lambda: GetFromAll().get_data(sid)),
                ("sid.get_attr('comment')", lambda: sid.get_attr("comment")),
            ):
                try:
                    result = call()
                    if isinstance(result, dict):
                        result = {k: (v[:20] + "...") if isinstance(v, str) else v for k, v in result.items()}
                    print(f"   {label} -> {result}")
                except Exception as e:  # noqa
                    print(f"   {label} RAISES {type(e).__name__}: {str(e)[:50]}...")
                    violated = True
        print("expected: {'sid': <the sid>} / None for every call (a sidecar that cannot be accessed gives just the 'sid' entry)")
    finally:
        if not existed:
            shutil.rmtree(top, ignore_errors=True)
        elif created:
            shutil.rmtree(created, ignore_errors=True)
            side = created.with_name("." + created.name + ".data.json")
            if side.exists():
                side.unlink()
    return 1 if violated else 0


if __name__ == "__main__":
    sys.exit(main())
