"""
C19 (with C20: "nothing depends on the demo configuration's ... separators") -
generated types are "named basetype + separator + last key of that prefix".

The demo configuration, with the type / keytype separator '__' consistently renamed to '-'
(spil_sid_conf sets sidtype_keytype_sep = '-', which the loader publishes as spil.conf.sidtype_keytype_sep and
which Sid.basetype, sid_resolver and fs_resolver read from there). extrapolate_templates() bound the
separator of global_conf ('__') at import time, before the configuration was read: it finds no separator
in 'asset-state', drops the basetype from every generated name, and skips the levels whose bare key name
is already a type ('asset', 'shot', 'task', 'version').
"""
import os
import shutil
import subprocess
import sys
import tempfile
import textwrap
from pathlib import Path

HERE = Path(__file__).resolve().parent.parent
DEMO = HERE / "spil_hamlet_conf"

CHILD = textwrap.dedent('''
    from spil import conf, Sid
    print("RESULT", [conf.sidtype_keytype_sep, list(conf.sid_templates),
                     [Sid(s).uri for s in ("hamlet/a/char/ophelia", "hamlet/a/char/ophelia/model", "hamlet/s/sq010/sh0010")]])
''')


def main():
    tmp = Path(tempfile.mkdtemp(prefix="spil_audit_"))
    try:
        for name in ["spil_sid_conf.py", "spil_data_conf.py", "spil_fs_conf.py", "spil_fs_server_conf.py"]:
            text = (DEMO / name).read_text()
            text = text.replace("__name__", "@@name@@").replace("__main__", "@@main@@").replace("__future__", "@@future@@")
            text = text.replace("__", "-")
            text = text.replace("@@name@@", "__name__").replace("@@main@@", "__main__").replace("@@future@@", "__future__")
            if name == "spil_sid_conf.py":
                text += "\nsidtype_keytype_sep = '-'\n"
            (tmp / name).write_text(text)
        shutil.copytree(DEMO / "hamlet_plugins", tmp / "hamlet_plugins")
        env = dict(os.environ, PYTHONPATH=os.pathsep.join([str(tmp), str(HERE)]))
        out = subprocess.run([sys.executable, "-W", "ignore", "-c", CHILD], env=env, capture_output=True, text=True)
    finally:
        shutil.rmtree(tmp, ignore_errors=True)
    lines = [l for l in out.stdout.splitlines() if l.startswith("RESULT")]
    if not lines:
        print(out.stdout[-2000:], out.stderr[-2000:])
        return 2
    sep, types, uris = eval(lines[-1][len("RESULT "):])
    required = ["asset-file", "asset-movie_file", "asset-cache_file", "asset-state", "asset-version", "asset-task",
                "asset-asset", "asset-assettype", "asset",
                "shot-file", "shot-movie_file", "shot-cache_file", "shot-cache_node_file", "shot-cache_node",
                "shot-state", "shot-version", "shot-task", "shot-shot", "shot-sequence", "shot", "project"]
    print("input   : demo configuration with '__' renamed to '-' and sidtype_keytype_sep = '-' in spil_sid_conf")
    print("spil.conf.sidtype_keytype_sep:", repr(sep))
    print("observed types:", types)
    print("required types:", required)
    print("observed Sid('hamlet/a/char/ophelia'), Sid('hamlet/a/char/ophelia/model'), Sid('hamlet/s/sq010/sh0010') uris:", uris)
    if types != required:
        print("VIOLATION: generated types are not named basetype + separator + key, and levels are missing")
        return 1
    return 0


if __name__ == "__main__":
    sys.exit(main())
