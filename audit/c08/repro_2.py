"""
C13 - "whichever path configuration was used first".

A secondary path configuration written the way docs/configuration.md documents it
("from spil_fs_conf import *", copy path_templates, override some elements) - here the server
names its state folders WIP / PUB instead of WORK / PUBLISH.

PathConfig.__init__ runs pattern_replacing() IN PLACE on the dictionary of the configuration module.
When 'local' is used first, spil_fs_conf.path_templates already carries the local patterns when the
server module copies it, the server's own patterns find nothing left to replace, and the answers of the
'server' configuration differ from those of a fresh process that uses 'server' first.
"""
import os
import shutil
import subprocess
import sys
import tempfile
import textwrap
from pathlib import Path

HERE = Path(__file__).resolve().parent.parent  # the worktree
DEMO = HERE / "spil_hamlet_conf"

SERVER_CONF = textwrap.dedent(r'''
    # secondary path configuration, as documented: use the main config and override some elements
    import copy
    from spil_fs_conf import *  # type: ignore
    from pathlib import Path

    project_server_root_path = Path(project_root_path).parent.parent / "SERVER" / "PROJECTS"
    path_templates = path_templates.copy()
    path_templates = {k: v.replace(project_root_path.as_posix(), project_server_root_path.as_posix())
                      for k, v in path_templates.items()}

    # on the server the states are named WIP / PUB
    path_defaults = {'state': 'WIP'}
    path_mapping = copy.deepcopy(path_mapping)
    path_mapping['state'] = {'WIP': 'w', 'PUB': 'p'}
    key_patterns = copy.deepcopy(key_patterns)
    key_patterns['__'].update({
        '{state}':   r'{state:(WIP|PUB|\*|\>)}',
        '{state:p}': r'{state:(PUB|\*|\>)}',
        '{state:w}': r'{state:(WIP|\*|\>)}',
    })
''')

CHILD = textwrap.dedent('''
    import sys
    from spil import Sid
    sid = Sid("hamlet/a/char/ophelia/model/v001/w/ma")
    for config in sys.argv[1].split(","):
        path = sid.path(config)
        back = Sid(path=path, config=config) if path else None
        if config == "server":
            print("RESULT", None if path is None else path.name, None if back is None else back.uri)
''')


def run(tmp, order):
    env = dict(os.environ, PYTHONPATH=os.pathsep.join([str(tmp), str(HERE), str(DEMO)]))
    out = subprocess.run([sys.executable, "-W", "ignore", "-c", CHILD, order],
                         env=env, capture_output=True, text=True)
    lines = [line for line in out.stdout.splitlines() if line.startswith("RESULT")]
    if not lines:
        print(out.stdout[-2000:], out.stderr[-2000:])
        raise SystemExit(2)
    return lines[-1]


def main():
    tmp = Path(tempfile.mkdtemp(prefix="spil_audit_"))
    try:
        (tmp / "spil_fs_server_conf.py").write_text(SERVER_CONF)
        fresh = run(tmp, "server")
        after_local = run(tmp, "local,server")
    finally:
        shutil.rmtree(tmp, ignore_errors=True)
    print('input: Sid("hamlet/a/char/ophelia/model/v001/w/ma").path("server") and Sid(path=that, config="server")')
    print("fresh process, 'server' used first     :", fresh)
    print("process that used 'local' before 'server':", after_local)
    if fresh != after_local:
        print("VIOLATION: the answer of the 'server' configuration depends on which configuration was used first")
        return 1
    return 0


if __name__ == "__main__":
    sys.exit(main())
