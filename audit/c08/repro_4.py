"""
C19 - generated types are "named basetype + separator + last key of that prefix".

For a listed type with more than one separator in its name, only the last component is replaced:
the generated types are named  <everything but the last component> + key  instead of  basetype + '__' + key.
(The basetype of 'shot__cache__file' is 'shot': Sid.basetype, key_types, leaf_keys all use type.split('__')[0].)
"""
import sys


def main():
    from spil.conf.util import extrapolate_templates

    sid_templates = {
        "shot__cache__file": "{project}/{type:s}/{sequence}/{shot}/{node}/{ext:caches}",
        "shot": "{project}/{type:s}",
        "project": "{project}",
    }
    to_extrapolate = ["shot__cache__file"]
    observed = list(extrapolate_templates(sid_templates, to_extrapolate).items())
    required = [
        ("shot__cache__file", "{project}/{type:s}/{sequence}/{shot}/{node}/{ext:caches}"),
        ("shot__node", "{project}/{type:s}/{sequence}/{shot}/{node}"),
        ("shot__shot", "{project}/{type:s}/{sequence}/{shot}"),
        ("shot__sequence", "{project}/{type:s}/{sequence}"),
        ("shot", "{project}/{type:s}"),
        ("project", "{project}"),
    ]
    print("input   : extrapolate_templates(%r, %r)" % (sid_templates, to_extrapolate))
    print("observed:", observed)
    print("required:", required)
    if observed != required:
        print("VIOLATION: generated types are not named basetype + '__' + key:",
              [name for name, __ in observed if name not in dict(required)])
        return 1
    return 0


if __name__ == "__main__":
    sys.exit(main())
