"""
C19 - generated types are "named basetype + separator + last key of that prefix".

A listed type whose name has no separator (its name IS the basetype) is extrapolated to types that are
named after the key alone: the basetype is dropped, so the generated levels belong to other "basetypes".
"""
import sys


def main():
    from spil.conf.util import extrapolate_templates

    sid_templates = {
        "asset": "{project}/{type:a}/{assettype}/{asset}",
        "shot": "{project}/{type:s}/{sequence}/{shot}",
    }
    to_extrapolate = ["asset", "shot"]
    observed = list(extrapolate_templates(sid_templates, to_extrapolate).items())
    required = [
        ("asset", "{project}/{type:a}/{assettype}/{asset}"),
        ("asset__assettype", "{project}/{type:a}/{assettype}"),
        ("asset__type", "{project}/{type:a}"),
        ("asset__project", "{project}"),
        ("shot", "{project}/{type:s}/{sequence}/{shot}"),
        ("shot__sequence", "{project}/{type:s}/{sequence}"),
        ("shot__type", "{project}/{type:s}"),
    ]
    print("input   : extrapolate_templates(%r, %r)" % (sid_templates, to_extrapolate))
    print("observed:", observed)
    print("required:", required)
    if observed != required:
        print("VIOLATION: generated types are not named basetype + '__' + key:",
              [name for name, __ in observed if name not in dict(required)])
        return 1
    return 0


if __name__ == "__main__":
    sys.exit(main())
