"""
C13 - answers are the same in a fresh process, "whichever path configuration was used first".

The demo path configuration spil_fs_conf does  key_patterns = key_patterns.copy()  (a shallow copy) and then
key_patterns['__'].update(...) / key_patterns['t'].update(...): it rewrites the nested dictionaries that
spil_sid_conf.key_patterns still owns. When the path configuration module is loaded before spil
(eg. a script that starts with "from spil_fs_conf import project_root_path"), the Sid templates are built
with the PATH vocabulary (HAMLET, WORK, PUBLISH): every 'hamlet/...' string is untyped in that process.
"""
import os
import subprocess
import sys
from pathlib import Path

HERE = Path(__file__).resolve().parent.parent
CALLS = "print('RESULT', [Sid(s).uri for s in ('hamlet', 'hamlet/a/char/ophelia/model/v001/w/ma', 'hamlet/s/sq010')])"


def run(code):
    env = dict(os.environ, PYTHONPATH=os.pathsep.join([str(HERE), str(HERE / "spil_hamlet_conf")]))
    out = subprocess.run([sys.executable, "-W", "ignore", "-c", code], env=env, capture_output=True, text=True)
    lines = [l for l in out.stdout.splitlines() if l.startswith("RESULT")]
    if not lines:
        print(out.stdout[-2000:], out.stderr[-2000:])
        raise SystemExit(2)
    return lines[-1]


def main():
    normal = run("from spil import Sid; import spil_fs_conf; " + CALLS)
    fs_first = run("import spil_fs_conf; from spil import Sid; " + CALLS)
    print("input: uri of Sid('hamlet'), Sid('hamlet/a/char/ophelia/model/v001/w/ma'), Sid('hamlet/s/sq010')")
    print("process importing spil, then spil_fs_conf:", normal)
    print("process importing spil_fs_conf, then spil:", fs_first)
    if normal != fs_first:
        print("VIOLATION: the typing of a plain string depends on whether the path configuration was loaded first")
        return 1
    return 0


if __name__ == "__main__":
    sys.exit(main())
