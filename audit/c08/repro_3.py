"""
C13 - caches are invisible / unfold_search gives the same result after any sequence of other calls.

unfold_search() hands out the very list object that its cache holds. A caller that edits the list it
received (here: keeps only the searches of one basetype, in place) silently changes what every later
unfold_search() / Finder.find() / Getter.get() of the same expression answers in this process.
"""
import os
import subprocess
import sys
from pathlib import Path

HERE = Path(__file__).resolve().parent.parent
SEARCH = "hamlet/s,a"


def observe():
    from spil import FindInAll, FindInList
    from spil.sid.read.tools import unfold_search
    return {
        "unfold_search": [s.uri for s in unfold_search(SEARCH)],
        "FindInAll.find": sorted(s.uri for s in FindInAll().find(SEARCH)),
        "FindInList.find": sorted(s.uri for s in FindInList(["hamlet/a", "hamlet/s"]).find(SEARCH)),
    }


def fresh():
    env = dict(os.environ, PYTHONDONTWRITEBYTECODE="1", PYTHONPATH=os.pathsep.join([str(HERE), str(HERE / "spil_hamlet_conf")]))
    code = "import sys; sys.path.insert(0, %r); import repro_3; print('RESULT', repr(repro_3.observe()))" % str(Path(__file__).resolve().parent)
    out = subprocess.run([sys.executable, "-W", "ignore", "-c", code], env=env, capture_output=True, text=True)
    line = [l for l in out.stdout.splitlines() if l.startswith("RESULT")]
    if not line:
        print(out.stdout[-2000:], out.stderr[-2000:])
        raise SystemExit(2)
    return eval(line[-1][len("RESULT "):])


def main():
    from spil.sid.read.tools import unfold_search

    expected = fresh()
    print("search:", SEARCH)
    print("fresh process                  :", expected)

    # "other calls": a caller asks for the typed searches and keeps the shot ones, editing its list in place
    mine = unfold_search(SEARCH)
    for s in list(mine):
        if s.basetype != "shot":
            mine.remove(s)

    observed = observe()
    print("same calls, later in a process :", observed)
    print("unfold_search returns the cached object itself:", unfold_search(SEARCH) is mine)
    if observed != expected:
        print("VIOLATION: the answers depend on what an earlier caller did with the list it was given")
        return 1
    return 0


if __name__ == "__main__":
    sys.exit(main())
