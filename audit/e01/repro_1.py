"""
C04 - get_with(query=..., key=value ...) silently drops the key=value overlay and still returns a typed Sid.

Run as:
PYTHONPATH=/tmp/spilwt8/e01:/tmp/spilwt8/e01/spil_hamlet_conf /venv/bin/python repro_1.py
"""
import sys


def main() -> int:
    from spil import Sid

    sid = Sid("hamlet/a/char/ophelia")
    violated = False

    calls = [
        ("get_with(query='task=rig', asset='yorick')", dict(query="task=rig", asset="yorick"), {"asset": "yorick", "task": "rig"}),
        ("get_with(query='task=rig', key='asset', value='yorick')", dict(query="task=rig", key="asset", value="yorick"), {"asset": "yorick", "task": "rig"}),
        ("get_with(query='task=rig', asset=None)", dict(query="task=rig", asset=None), {"asset": None, "task": "rig"}),
    ]
    for label, kwargs, requested in calls:
        result = sid.get_with(**kwargs)
        # the overlay that the call asks for: old fields + query values + key=value (None removes)
        overlay = dict(sid.fields)
        for k, v in requested.items():
            if v is None:
                overlay.pop(k, None)
            else:
                overlay[k] = v
        print(f"input   : Sid({sid.string!r}).{label}")
        print(f"returned: {result!r}  fields={result.fields}")
        print(f"overlay : {overlay}")
        if result and result.fields != overlay:
            print("=> VIOLATION: a typed Sid whose fields differ from the requested overlay\n")
            violated = True
        else:
            print("=> ok\n")

    # for comparison: each half alone is honoured
    print("alone   :", repr(sid.get_with(asset="yorick")), repr(sid.get_with(query="task=rig")))
    print("both, as one query:", repr(sid.get_with(query="task=rig&asset=yorick")))
    return 1 if violated else 0


if __name__ == "__main__":
    sys.exit(main())
