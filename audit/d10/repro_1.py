"""
C18 - get_last('version') is not the greatest version, and get_new('version') returns a version that already exists,
when an existing version is written with non-ASCII decimal digits (legal for the configured pattern v\\d\\d\\d).

Run: PYTHONPATH=/tmp/spilwt7/d10:/tmp/spilwt7/d10/spil_hamlet_conf /venv/bin/python repro_1.py
"""
import shutil
import sys
from pathlib import Path


def main():
    import spil
    from spil import Sid, WriteToPaths
    from spil.util.log import setLevel, ERROR
    from spil.util.exception import SpilException
    setLevel(ERROR)

    root = Path(spil.__file__).parent.parent / "spil_hamlet_conf" / "data" / "testing" / "SPIL_PROJECTS"
    if root.exists():
        shutil.rmtree(root)

    task = "hamlet/a/char/ophelia/model"
    v9 = "v٠٠٩"      # 'v٠٠٩' : ARABIC-INDIC DIGITS ZERO ZERO NINE, matched by \d\d\d, int() == 9
    v10 = "v010"
    violated = False
    try:
        for v in (v9, v10):
            sid = Sid(task + "/" + v)
            print("version", ascii(v), "-> typed as", sid.type, "| int =", int(v[1:]))
            assert sid.type == "asset__version"
            WriteToPaths().create(sid)           # plain public API, creates the version folder

        s = Sid(task)
        last = s.get_last("version")
        new = s.get_new("version")
        print("existing versions      :", ascii([v9, v10]))
        print("get_last('version')    :", ascii(str(last)))
        print("get_new('version')     :", ascii(str(new)), "| exists():", new.exists())

        if last.get("version") != v10:
            print("VIOLATION: get_last is not the existing sibling with the greatest version (10 > 9)")
            violated = True
        if new and new.exists():
            print("VIOLATION: get_new returns a version that already exists")
            violated = True
            try:
                WriteToPaths().create(new)
            except SpilException as e:
                print("           publishing it fails:", str(e)[:90], "...")
        star = Sid(task + "/*").get_next("version")
        print("Sid(task/'*').get_next :", ascii(str(star)), "| exists():", star.exists())
        if star and star.exists():
            violated = True
    finally:
        if root.exists():
            shutil.rmtree(root)
    return 1 if violated else 0


if __name__ == "__main__":
    sys.exit(main())
