"""
C19 - extrapolation splits the template text at every '/', also at a '/' inside a placeholder pattern that
EXCLUDES the separator ('[^/]+', resolva's own default expression is '[^/]*'): a two-level prefix gets a type named
after a piece of the regular expression, one extra type with a truncated template is added, and spil cannot be imported.

Run: PYTHONPATH=/tmp/spilwt7/d10:/tmp/spilwt7/d10/spil_hamlet_conf /venv/bin/python repro_2.py
"""
import os
import shutil
import subprocess
import sys
import tempfile


def main():
    from spil.util.log import setLevel, ERROR
    setLevel(ERROR)
    from spil.conf.util import extrapolate_templates
    from resolva import template as rt

    sid_templates = {"asset__file": "{project}/{asset:[^/]+}/{ext}"}
    to_extrapolate = ["asset__file"]
    print("sid_templates :", sid_templates)
    print("to_extrapolate:", to_extrapolate)

    # the template is legal and types 3-segment strings, one placeholder per segment
    regex = rt.construct_regular_expression(sid_templates["asset__file"])
    print("resolva keys  :", rt.get_keys(sid_templates["asset__file"]), "| 'hamlet/ophelia/ma' ->", regex.match("hamlet/ophelia/ma").groupdict())

    result = dict(extrapolate_templates(sid_templates, to_extrapolate))
    print("result        :")
    for k, v in result.items():
        print("   %-16r %r" % (k, v))

    expected = {"asset__file": "{project}/{asset:[^/]+}/{ext}",
                "asset__asset": "{project}/{asset:[^/]+}",
                "asset__project": "{project}"}
    print("required      :", expected)

    violated = result != expected
    if violated:
        print("VIOLATION: generated types are not 'one per level, named basetype__lastkey'")

    # consequence: the same template in an otherwise unchanged demo configuration makes spil un-importable
    src = os.path.join(os.path.dirname(os.path.dirname(os.path.abspath(__import__("spil").__file__))), "spil_hamlet_conf")
    tmp = tempfile.mkdtemp()
    try:
        for f in os.listdir(src):
            if f.endswith(".py"):
                shutil.copy(os.path.join(src, f), tmp)
        shutil.copytree(os.path.join(src, "hamlet_plugins"), os.path.join(tmp, "hamlet_plugins"))
        p = os.path.join(tmp, "spil_sid_conf.py")
        txt = open(p).read()
        old = "'asset__state':           '{project}/{type:a}/{assettype}/{asset}/"
        assert old in txt
        open(p, "w").write(txt.replace(old, old.replace("{asset}", "{asset:[^/]+}")))
        code = "from spil import Sid; print(repr(Sid('hamlet/a/char/ophelia/model')))"
        lib = os.path.dirname(src)
        r = subprocess.run([sys.executable, "-c", code], capture_output=True, text=True,
                           env={"PYTHONPATH": tmp + os.pathsep + lib, "PATH": os.environ.get("PATH", ""), "HOME": tmp})
        print("demo conf with 'asset__state': '.../{asset:[^/]+}/...' -> import spil: returncode", r.returncode)
        print("   ", (r.stdout.strip().splitlines() or r.stderr.strip().splitlines())[-1][:160] if r.returncode == 0 else
              [l for l in r.stderr.splitlines() if "Invalid pattern" in l][-1][:160])
        if r.returncode != 0:
            violated = True
    finally:
        shutil.rmtree(tmp)
    return 1 if violated else 0


if __name__ == "__main__":
    sys.exit(main())
