"""C03 (and C02 'string form'): a typed Sid reached by plain navigation whose string first-matches another template.
parent / last-value does not give back the Sid, and Sid(sid.string) is a different Sid."""
import sys
from spil import Sid
from spil.util.log import setLevel, ERROR

setLevel(ERROR)


def main():
    violated = False
    cases = [
        # (plain string the user starts from, how the Sid under test is obtained)
        ("hamlet/s/sq010/sh0010/fx/v001/w/ma/abc", lambda s: s.parent),             # node named like an extension
        ("hamlet/s/sq010/sh0010/fx/v001/w/*/abc", lambda s: s.parent),              # search on the node level
        ("hamlet/*/*/*/anim", lambda s: s.parent),                                  # "all anim tasks": type is '*'
        ("hamlet/*/*/*/anim", lambda s: s.get_as("sequence")),
        ("hamlet/s/sq010/sh0010/fx/v001/w", lambda s: s.get_with(node="ma")),
    ]
    for start, nav in cases:
        s = Sid(start)
        p = nav(s)
        last = p.get(p.keytype)
        rebuilt = p.parent / last
        from_string = Sid(p.string)
        print(f"start {s!r}")
        print(f"  Sid under test p         : {p!r}  fields={p.fields}")
        print(f"  p.parent                 : {p.parent!r}")
        print(f"  p.parent / {last!r:8}      : {rebuilt!r}   == p ? {rebuilt == p}")
        print(f"  Sid(p.string)            : {from_string!r}   == p ? {from_string == p}")
        print(f"  uri/fields/query forms ok: {Sid(p.uri) == p and Sid(fields=p.fields) == p and Sid(query=p.as_query()) == p}")
        if p and rebuilt != p:
            print("  VIOLATION (C03): parent / last-value does not give back the Sid")
            violated = True
    return 1 if violated else 0


if __name__ == "__main__":
    sys.exit(main())
