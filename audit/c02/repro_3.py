"""C02: a typed Sid with a value starting with '~' is not rebuilt by its query string."""
import sys
from spil import Sid
from spil.util.log import setLevel, ERROR

setLevel(ERROR)


def main():
    violated = False
    for string in ["hamlet/a/char/~foo", "hamlet/a/char/~", "hamlet/a/char/~tmp/model", "hamlet/s/sq010/sh0010/fx/v001/w/~n/abc"]:
        sid = Sid(string)
        query = sid.as_query()
        back = Sid(query=query)
        others_ok = all(r == sid and r.fields == sid.fields for r in
                        (Sid(sid.uri), Sid(fields=sid.fields), eval(repr(sid)), sid.copy()))
        print(f"input            : Sid({string!r}) -> {sid!r}  fields={sid.fields}")
        print(f"  as_query()     : {query!r}")
        print(f"  Sid(query=...) : {back!r}  fields={back.fields}")
        print(f"  uri/fields/repr/copy forms equal: {others_ok}")
        if bool(sid) and not (back == sid and back.type == sid.type and back.fields == sid.fields):
            print("  VIOLATION: the query form denotes another (or no) Sid")
            violated = True
    return 1 if violated else 0


if __name__ == "__main__":
    sys.exit(main())
