"""C02 / C03: a typed Sid that carries an unapplied query.
Its string is not the canonical rendering of its fields, it differs from the Sid with the same type and fields,
its fields / query forms and parent / last-value do not give it back."""
import sys
from spil import Sid
from spil.sid.core import sid_resolver
from spil.util.log import setLevel, ERROR

setLevel(ERROR)


def main():
    violated = False
    for string in ["hamlet/a/char/ophelia?foo=bar", "hamlet/s/sq030/sh0100/anim?sequence=fuzz", "hamlet?x=1"]:
        sid = Sid(string)
        twin = Sid(string.split("?")[0])
        canonical = sid_resolver.dict_to_sid(sid.fields, sid.type)
        print(f"input: Sid({string!r}) -> {sid!r}  typed={bool(sid)} type={sid.type!r} fields={sid.fields}")
        print(f"  string                 : {sid.string!r}   canonical rendering of the fields: {canonical!r}")
        print(f"  twin                   : {twin!r}  same type: {twin.type == sid.type}  same fields: {twin.fields == sid.fields}  equal: {twin == sid}")
        print(f"  Sid(fields=sid.fields) : {Sid(fields=sid.fields)!r}  == sid ? {Sid(fields=sid.fields) == sid}")
        print(f"  Sid(query=as_query())  : {Sid(query=sid.as_query())!r}  == sid ? {Sid(query=sid.as_query()) == sid}")
        if len(sid) > 1:
            rebuilt = sid.parent / sid.get(sid.keytype)
            print(f"  parent / last-value    : {rebuilt!r}  == sid ? {rebuilt == sid}")
        g = sid.get_as(sid.keytype)
        print(f"  get_as(last key)       : {g!r}")
        if bool(sid) and (sid.string != canonical or (twin.type == sid.type and twin.fields == sid.fields and twin != sid)):
            print("  VIOLATION: typed Sid with non canonical string; equal type+fields but unequal Sids")
            violated = True
    return 1 if violated else 0


if __name__ == "__main__":
    sys.exit(main())
