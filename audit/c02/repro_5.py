"""C03: '/' on an untyped Sid does not return the empty Sid (it can even return a typed one)."""
import sys
from spil import Sid
from spil.util.log import setLevel, ERROR

setLevel(ERROR)


def main():
    violated = False
    for string, other in [("bla/bla", "x"), ("", "hamlet"), ("asset__asset:hamlet/a/char", "ophelia")]:
        sid = Sid(string)
        print(f"input: Sid({string!r}) -> {sid!r}  typed={bool(sid)}")
        print(f"  .parent           : {sid.parent!r}")
        print(f"  .get_as('project'): {sid.get_as('project')!r}")
        res = sid / other
        print(f"  / {other!r:10}      : {res!r}  typed={bool(res)}")
        if not sid and res != Sid():
            print("  VIOLATION: '/' on an untyped Sid is not the empty Sid")
            violated = True
    return 1 if violated else 0


if __name__ == "__main__":
    sys.exit(main())
