"""C02: a typed Sid with an EMPTY value is not rebuilt by its query string (as_query -> Sid(query=...))."""
import sys
from spil import Sid
from spil.util.log import setLevel, ERROR

setLevel(ERROR)


def main():
    violated = False
    for string in ["hamlet/a/char/", "hamlet/a/char//model", "hamlet/s/sq010/sh0010/fx/v001/w/", "hamlet/s/sq010/sh0010/fx/v001/w//abc"]:
        sid = Sid(string)
        print(f"input            : Sid({string!r}) -> {sid!r}  typed={bool(sid)}  fields={sid.fields}")
        # the other forms work
        others_ok = all(r == sid and r.fields == sid.fields for r in
                        (Sid(sid.uri), Sid(fields=sid.fields), eval(repr(sid)), sid.copy()))
        query = sid.as_query()
        back = Sid(query=query)
        back2 = Sid("?" + query)
        print(f"  as_query()     : {query!r}")
        print(f"  Sid(query=...) : {back!r}  typed={bool(back)}  fields={back.fields}")
        print(f"  Sid('?'+query) : {back2!r}")
        print(f"  uri/fields/repr/copy forms equal: {others_ok}")
        if bool(sid) and not (back == sid and back.type == sid.type and back.string == sid.string and back.fields == sid.fields):
            print("  VIOLATION: the query form denotes another (or no) Sid")
            violated = True
    return 1 if violated else 0


if __name__ == "__main__":
    sys.exit(main())
