"""
C04 - "get_with(key=value...) returns the Sid with exactly the overlaid fields ... or an untyped Sid; it
never returns a typed Sid whose fields differ from the requested overlay."  (C20: nothing depends on key names)

Sid.get_with(self, query=None, key=None, value=None, **kwargs) has its own parameters called 'key' and
'value'.  With a configuration that has Sid fields of these names, get_with(value='blue') never reaches
**kwargs: the call is read as "key=None, value='blue'", nothing is overlaid and the unchanged typed Sid
comes back.  get_with(key='size') is read as "remove the key called size" and also returns the Sid unchanged.
The query form of the same update works.

The script writes a small configuration into a temporary directory and runs a subprocess with it.
"""
import os
import subprocess
import sys
import tempfile
import shutil

SID_CONF = r'''
sip = '/'
projects = ['hamlet']
sid_templates = {
    'attr__value':   '{project}/{type:m}/{key}/{value}',
    'attr__key':     '{project}/{type:m}/{key}',
    'attr':          '{project}/{type:m}',
    'project':       '{project}',
}
to_extrapolate = []
extension_alias = {}
key_patterns = {
    't': {
        '{project}': r'{project:(hamlet|\*|\>)}',
        '{type:m}': r'{type:(m|\*|\>)}',
    },
}
key_types = {
    'attr': ['project', 'type', 'key', 'value'],
    'project': ['project'],
}
leaf_keys = {'attr': 'value', 'project': 'value', None: 'value'}
basetyped_search_narrowing = {'attr': 'type=~m'}
typed_search_narrowing = {}
'''

DATA_CONF = r'''
path_configs = {}
default_path_config = ''
def get_finder_for(search_sid, config=None): return None
def get_getter_for(sid, attribute=None, config=None): return None
def get_writer_for(sid): return None
path_data_suffix = '.data.json'
create_file_using_template = {}
create_file_using_touch = True
def get_data_json_path(sid_path): return sid_path.with_name('.' + sid_path.stem + path_data_suffix)
'''

CHILD = r'''
import sys, logging
from spil import Sid, setLevel
from spil.util.log import ERROR
setLevel(ERROR)
logging.getLogger("resolva").setLevel(logging.ERROR)

sid = Sid("hamlet/m/color/red")
print("sid:", repr(sid), sid.fields)
bad = False
for kwargs in ({"value": "blue"}, {"key": "size"}):
    overlay = dict(sid.fields, **kwargs)
    got = sid.get_with(**kwargs)
    viol = bool(got) and got.fields != overlay
    print("get_with(**%r) -> %r fields=%r%s" % (kwargs, got, got.fields, "   <-- VIOLATION" if viol else ""))
    print("   required: fields %r (or an untyped Sid)" % overlay)
    print("   query form: %r" % sid.get_with(query="&".join("%s=%s" % kv for kv in kwargs.items())))
    bad |= viol
sys.exit(1 if bad else 0)
'''


def main():
    import spil
    lib_root = os.path.dirname(os.path.dirname(os.path.abspath(spil.__file__)))
    tmp = tempfile.mkdtemp(prefix="c04_keynames_")
    try:
        with open(os.path.join(tmp, "spil_sid_conf.py"), "w") as f:
            f.write(SID_CONF)
        with open(os.path.join(tmp, "spil_data_conf.py"), "w") as f:
            f.write(DATA_CONF)
        with open(os.path.join(tmp, "child.py"), "w") as f:
            f.write(CHILD)
        env = dict(os.environ, PYTHONPATH=os.pathsep.join([tmp, lib_root]), PYTHONWARNINGS="ignore")
        proc = subprocess.run([sys.executable, os.path.join(tmp, "child.py")], env=env,
                              stdout=subprocess.PIPE, stderr=subprocess.STDOUT, universal_newlines=True)
        out = "\n".join(l for l in proc.stdout.splitlines() if "Resolver class init" not in l)
        print(out)
        if proc.returncode not in (0, 1):
            print("child failed unexpectedly, return code", proc.returncode)
            return 0
        print("VIOLATION" if proc.returncode == 1 else "ok")
        return proc.returncode
    finally:
        shutil.rmtree(tmp, ignore_errors=True)


if __name__ == "__main__":
    sys.exit(main())
