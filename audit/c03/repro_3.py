"""
C07 - "a single '/**' stands for any number (zero or more) of '/*' levels that complete the string to a
leaf type (one ending in the configured leaf key)"  /  C20 "a leaf key per basetype".

utils.expand() takes ONE leaf key - the one of the basetype of the first type that accepts the root
before '/**' - and keeps only templates whose last key has that name, whatever their basetype.
With a configuration whose basetypes have different leaf keys (assets end in 'ext', shots end in 'img'),
a '**' search rooted above the basetype level silently loses all the leaf types of the other basetypes.

The script writes a small configuration into a temporary directory and runs a subprocess with it.
"""
import os
import subprocess
import sys
import tempfile
import shutil

SID_CONF = r'''
sip = '/'
projects = ['hamlet']
sid_templates = {
    'asset__file':   '{project}/{type:a}/{asset}/{task}/{ext:scenes}',
    'asset__task':   '{project}/{type:a}/{asset}/{task}',
    'asset':         '{project}/{type:a}',
    'shot__image':   '{project}/{type:s}/{shot}/{task}/{layer}/{img:images}',
    'shot__layer':   '{project}/{type:s}/{shot}/{task}/{layer}',
    'shot':          '{project}/{type:s}',
    'project':       '{project}',
}
to_extrapolate = ['asset__task', 'shot__layer']
extension_alias = {'maya': ['ma', 'mb'], 'pics': ['exr', 'png']}
key_patterns = {
    '__': {
        '{ext:scenes}': r'{ext:(ma|mb|maya|\*|\>)}',
        '{img:images}': r'{img:(exr|png|pics|\*|\>)}',
    },
    't': {
        '{project}': r'{project:(hamlet|\*|\>)}',
        '{type:a}': r'{type:(a|\*|\>)}',
        '{type:s}': r'{type:(s|\*|\>)}',
    },
}
key_types = {
    'asset': ['project', 'type', 'asset', 'task', 'ext'],
    'shot': ['project', 'type', 'shot', 'task', 'layer', 'img'],
    'project': ['project'],
}
# a leaf key per basetype
leaf_keys = {'asset': 'ext', 'shot': 'img', 'project': 'ext', None: 'ext'}
basetyped_search_narrowing = {'asset': 'type=~a', 'shot': 'type=~s'}
typed_search_narrowing = {}
'''

DATA_CONF = r'''
path_configs = {}
default_path_config = ''
def get_finder_for(search_sid, config=None): return None
def get_getter_for(sid, attribute=None, config=None): return None
def get_writer_for(sid): return None
path_data_suffix = '.data.json'
create_file_using_template = {}
create_file_using_touch = True
def get_data_json_path(sid_path): return sid_path.with_name('.' + sid_path.stem + path_data_suffix)
'''

CHILD = r'''
import sys, logging
from spil import Sid, setLevel
from spil.util.log import ERROR
setLevel(ERROR)
logging.getLogger("resolva").setLevel(logging.ERROR)
from spil.sid.read.tools import unfold_search

A = "asset__file:hamlet/a/*/*/*"
S = "shot__image:hamlet/s/*/*/*/*"
cases = [
    ("hamlet/a/**", {A}),
    ("hamlet/s/**", {S}),
    ("hamlet/s,a/**", {A, S}),
    ("hamlet/*/**", {A, S}),      # same search as the line above
    ("hamlet/**", {A, S}),
    ("hamlet/**/png", {"shot__image:hamlet/s/*/*/*/png"}),
    ("hamlet/*/x/**", {"asset__file:hamlet/a/x/*/*", "shot__image:hamlet/s/x/*/*/*"}),
]
bad = False
for search, expected in cases:
    got = {s.uri for s in unfold_search(search)}
    flag = "" if got == expected else "   <-- VIOLATION"
    print("unfold_search(%r)%s" % (search, flag))
    print("   observed:", sorted(got))
    print("   required:", sorted(expected))
    bad |= got != expected
sys.exit(1 if bad else 0)
'''


def main():
    import spil
    lib_root = os.path.dirname(os.path.dirname(os.path.abspath(spil.__file__)))
    tmp = tempfile.mkdtemp(prefix="c07_leafkeys_")
    try:
        with open(os.path.join(tmp, "spil_sid_conf.py"), "w") as f:
            f.write(SID_CONF)
        with open(os.path.join(tmp, "spil_data_conf.py"), "w") as f:
            f.write(DATA_CONF)
        with open(os.path.join(tmp, "child.py"), "w") as f:
            f.write(CHILD)
        env = dict(os.environ, PYTHONPATH=os.pathsep.join([tmp, lib_root]), PYTHONWARNINGS="ignore")
        proc = subprocess.run([sys.executable, os.path.join(tmp, "child.py")], env=env,
                              stdout=subprocess.PIPE, stderr=subprocess.STDOUT, universal_newlines=True)
        out = "\n".join(l for l in proc.stdout.splitlines() if "Resolver class init" not in l)
        print(out)
        if proc.returncode not in (0, 1):
            print("child failed unexpectedly, return code", proc.returncode)
            return 0
        print("VIOLATION" if proc.returncode == 1 else "ok")
        return proc.returncode
    finally:
        shutil.rmtree(tmp, ignore_errors=True)


if __name__ == "__main__":
    sys.exit(main())
