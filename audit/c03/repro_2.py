"""
C04 - "Applying a query ... either yields the Sid whose fields are the old fields overlaid with the
query values ..., or, when the overlaid fields fit no type ..., leaves type and fields untouched and
keeps the query text visibly in the string."  (all-or-nothing)

A 'key=' pair with an empty value is silently thrown away by query_helper.to_dict (parse_qsl drops blank
values): the rest of the query is applied, the string is "clean", and the result is neither the overlay
nor the untouched Sid with the query text.
The same update through get_with(key='') or through the '~' form ('key=~') IS handled as the value "".
"""
import sys
import logging


def check(label, sid, old_fields, overlay, query_text):
    """Returns True if the result is one of the two outcomes C04 allows."""
    applied = sid.fields == overlay and "?" not in sid.string
    refused = sid.fields == old_fields and query_text in sid.string
    print("%s\n   -> %r fields=%r" % (label, sid, sid.fields))
    print("   overlay required (if it fits a type): %r" % overlay)
    print("   allowed outcome reached: %s" % (applied or refused))
    return applied or refused


def main():
    from spil import Sid, setLevel
    from spil.util.log import ERROR
    setLevel(ERROR)
    logging.getLogger("resolva").setLevel(logging.ERROR)

    ok = True

    # 1. closed pattern: sequence="" fits no type -> the whole query must be refused
    base = Sid("hamlet/s/sq010")
    old = base.fields
    overlay = dict(old, sequence="", shot="sh0010")
    q = "sequence=&shot=sh0010"
    ok &= check("Sid('hamlet/s/sq010?%s')" % q, Sid("hamlet/s/sq010?" + q), old, overlay, q)
    ok &= check("Sid('hamlet/s/sq010').get_with(query=%r)" % q, base.get_with(query=q), old, overlay, q)
    print("   for comparison get_with(sequence='', shot='sh0010') -> %r" % base.get_with(sequence="", shot="sh0010"))
    q2 = "sequence=~&shot=sh0010"
    print("   for comparison Sid('hamlet/s/sq010?%s') -> %r" % (q2, Sid("hamlet/s/sq010?" + q2)))

    # 2. open pattern: asset="" fits asset__task -> the overlay must be returned
    base = Sid("hamlet/a/char/ophelia")
    old = base.fields
    overlay = dict(old, asset="", task="model")
    q = "asset=&task=model"
    ok &= check("Sid('hamlet/a/char/ophelia?%s')" % q, Sid("hamlet/a/char/ophelia?" + q), old, overlay, q)
    print("   for comparison get_with(asset='', task='model') -> %r" % base.get_with(asset="", task="model"))

    # 3. single pair: the query disappears without a trace
    q = "sequence="
    ok &= check("Sid('hamlet/s/sq010?%s')" % q, Sid("hamlet/s/sq010?" + q), Sid("hamlet/s/sq010").fields,
                dict(Sid("hamlet/s/sq010").fields, sequence=""), q)

    print("ok" if ok else "VIOLATION")
    return 0 if ok else 1


if __name__ == "__main__":
    sys.exit(main())
