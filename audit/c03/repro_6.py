"""
C07 - "a string without '**' takes every type whose template accepts it".

utils.simple_typing() first types the part of the search before the first '/*' (the "root").
If that root has no type of its own it gives up and returns [Sid(search)], i.e. only the FIRST type
that accepts the string.  In the demo configuration every level has a type, so this never shows;
with a configuration that does not define (nor extrapolate) one intermediate level, a search that has
a literal value at that level loses all types but the first, although the same search with '*' at that
level returns them all.

The script writes a small configuration into a temporary directory and runs a subprocess with it.
"""
import os
import subprocess
import sys
import tempfile
import shutil

SID_CONF = r'''
sip = '/'
projects = ['hamlet']
sid_templates = {
    'asset__file':   '{project}/{type:a}/{asset}/{task}/{ext:scenes}',
    'asset__movie':  '{project}/{type:a}/{asset}/{task}/{ext:movies}',
    'asset__task':   '{project}/{type:a}/{asset}/{task}',
    'asset':         '{project}/{type:a}',
    'project':       '{project}',
}
to_extrapolate = []      # the '{project}/{type}/{asset}' level has no type
extension_alias = {'maya': ['ma', 'mb']}
key_patterns = {
    '__': {
        '{ext:scenes}': r'{ext:(ma|mb|maya|\*|\>)}',
        '{ext:movies}': r'{ext:(mov|avi|\*|\>)}',
    },
    't': {
        '{project}': r'{project:(hamlet|\*|\>)}',
        '{type:a}': r'{type:(a|\*|\>)}',
    },
}
key_types = {
    'asset': ['project', 'type', 'asset', 'task', 'ext'],
    'project': ['project'],
}
leaf_keys = {'asset': 'ext', 'project': 'ext', None: 'ext'}
basetyped_search_narrowing = {'asset': 'type=~a'}
typed_search_narrowing = {}
'''

DATA_CONF = r'''
path_configs = {}
default_path_config = ''
def get_finder_for(search_sid, config=None): return None
def get_getter_for(sid, attribute=None, config=None): return None
def get_writer_for(sid): return None
path_data_suffix = '.data.json'
create_file_using_template = {}
create_file_using_touch = True
def get_data_json_path(sid_path): return sid_path.with_name('.' + sid_path.stem + path_data_suffix)
'''

CHILD = r'''
import sys, logging
from spil import Sid, setLevel
from spil.util.log import ERROR
setLevel(ERROR)
logging.getLogger("resolva").setLevel(logging.ERROR)
from spil.sid.read.tools import unfold_search

cases = [
    ("hamlet/a/*/*/*", {"asset__file:hamlet/a/*/*/*", "asset__movie:hamlet/a/*/*/*"}),
    ("hamlet/a/x/model/*", {"asset__file:hamlet/a/x/model/*", "asset__movie:hamlet/a/x/model/*"}),
    ("hamlet/a/x/*/*", {"asset__file:hamlet/a/x/*/*", "asset__movie:hamlet/a/x/*/*"}),
    ("hamlet/a/x/*/>", {"asset__file:hamlet/a/x/*/>", "asset__movie:hamlet/a/x/*/>"}),
]
bad = False
for search, expected in cases:
    got = {s.uri for s in unfold_search(search)}
    flag = "" if got == expected else "   <-- VIOLATION"
    print("unfold_search(%r)%s" % (search, flag))
    print("   observed:", sorted(got))
    print("   required:", sorted(expected))
    bad |= got != expected
sys.exit(1 if bad else 0)
'''


def main():
    import spil
    lib_root = os.path.dirname(os.path.dirname(os.path.abspath(spil.__file__)))
    tmp = tempfile.mkdtemp(prefix="c07_gap_")
    try:
        with open(os.path.join(tmp, "spil_sid_conf.py"), "w") as f:
            f.write(SID_CONF)
        with open(os.path.join(tmp, "spil_data_conf.py"), "w") as f:
            f.write(DATA_CONF)
        with open(os.path.join(tmp, "child.py"), "w") as f:
            f.write(CHILD)
        env = dict(os.environ, PYTHONPATH=os.pathsep.join([tmp, lib_root]), PYTHONWARNINGS="ignore")
        proc = subprocess.run([sys.executable, os.path.join(tmp, "child.py")], env=env,
                              stdout=subprocess.PIPE, stderr=subprocess.STDOUT, universal_newlines=True)
        out = "\n".join(l for l in proc.stdout.splitlines() if "Resolver class init" not in l)
        print(out)
        if proc.returncode not in (0, 1):
            print("child failed unexpectedly, return code", proc.returncode)
            return 0
        print("VIOLATION" if proc.returncode == 1 else "ok")
        return proc.returncode
    finally:
        shutil.rmtree(tmp, ignore_errors=True)


if __name__ == "__main__":
    sys.exit(main())
