"""
C07 - "extension aliases in the last segment and in an ext filter are replaced by their members"
      + "a trailing query is applied to every typed search" (C04: a '~'-prefixed value replaces a key that exists).

In an ext filter whose value carries the '~' option sign, the alias is looked up including the sign
('~maya' is no alias), so it is not replaced: the returned typed search carries the alias name itself as
extension and can match nothing.  In a ',' list only the first alternative keeps the sign.
"""
import sys
import logging


def main():
    from spil import setLevel
    from spil.util.log import ERROR
    setLevel(ERROR)
    logging.getLogger("resolva").setLevel(logging.ERROR)
    from spil.sid.read.tools import unfold_search

    base = "hamlet/a/char/ophelia/model/v001/w/*"
    ref = {s.uri for s in unfold_search(base + "?ext=maya")}
    got = {s.uri for s in unfold_search(base + "?ext=~maya")}
    print("unfold_search(%r)" % (base + "?ext=maya"))
    print("   ->", sorted(ref))
    print("unfold_search(%r)" % (base + "?ext=~maya"))
    print("   observed:", sorted(got))
    print("   required:", sorted(ref), "(ext exists in every typed search, so '~' changes nothing)")
    violated = got != ref
    print("VIOLATION" if violated else "ok")
    return 1 if violated else 0


if __name__ == "__main__":
    sys.exit(main())
