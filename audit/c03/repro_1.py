"""
C07 - "every ',' alternative in a segment or query value is distributed".

The or-unfolder (spil/sid/read/unfolders/or_op.py, or_on_path) builds its strings behind an internal
marker "--start--/" and removes that marker afterwards with str.replace() on the whole string.
A segment that ends with "--start--" (a legal value of any open field, here the asset name) is removed
together with the marker, but only when the search contains a ',' somewhere.
"""
import sys
import logging


def main():
    from spil import Sid, setLevel
    from spil.util.log import ERROR
    setLevel(ERROR)
    logging.getLogger("resolva").setLevel(logging.ERROR)
    from spil.sid.read.tools import unfold_search

    violated = False

    # the value is legal: without ',' it is typed and unfolded unchanged
    plain = "hamlet/a/char/--start--/model"
    print("Sid(%r) -> %r" % (plain, Sid(plain)))
    print("unfold_search(%r) -> %r" % (plain, unfold_search(plain)))

    cases = {
        "hamlet/a/char/--start--/model,rig": {
            "asset__task:hamlet/a/char/--start--/model",
            "asset__task:hamlet/a/char/--start--/rig",
        },
        # the ',' may also be in the query only
        "hamlet/a/char/x--start--/model?version=v001,v002": {
            "asset__version:hamlet/a/char/x--start--/model/v001",
            "asset__version:hamlet/a/char/x--start--/model/v002",
        },
    }
    for search, expected in cases.items():
        got = {s.uri for s in unfold_search(search)}
        print("unfold_search(%r)" % search)
        print("   observed:", sorted(got))
        print("   required:", sorted(expected))
        if got != expected:
            violated = True

    print("VIOLATION" if violated else "ok")
    return 1 if violated else 0


if __name__ == "__main__":
    sys.exit(main())
