import re, string, itertools
from spil import conf
from spil.util.exception import SpilException

T = {}
for name, tpl in conf.sid_templates.items():
    keys = []
    for lit, field, spec, conv in string.Formatter().parse(tpl):
        if field is None: continue
        keys.append((field, spec if spec else '[^/]*'))
    T[name] = keys

def accepts(t, s):
    segs = s.split('/')
    keys = T[t]
    if len(segs) != len(keys): return None
    d = {}
    for (k, pat), seg in zip(keys, segs):
        if not re.fullmatch(pat, seg): return None
        d[k] = seg
    return d

def types_for_fields(fields):
    out = []
    for t, keys in T.items():
        if set(k for k,_ in keys) != set(fields): continue
        if all(re.fullmatch(p, str(fields[k])) for k,p in keys):
            out.append(t)
    return out

def render(t, fields):
    return '/'.join(fields[k] for k,_ in T[t])

def parse_q(q):
    q = q.replace('?', '&')
    out = {}
    for pair in q.split('&'):
        if not pair: continue
        if '=' in pair:
            k, v = pair.split('=', 1)
        else:
            k, v = pair, ''
        out[k] = v
    return out

class Ambiguous(Exception): pass

def unfold(s):
    if '?' in s: path, q = s.split('?',1)
    else: path, q = s, ''
    qd = parse_q(q)
    alias = conf.extension_alias
    segs = path.split('/')
    alts = [seg.split(',') for seg in segs]
    last = []
    for a in alts[-1]:
        last.extend(alias.get(a, [a]))
    alts[-1] = last
    qalts = {}
    for k, v in qd.items():
        vs = v.split(',')
        if k == 'ext':
            nv = []
            for x in vs: nv.extend(alias.get(x, [x]))
            vs = nv
        qalts[k] = vs
    results = set()
    for combo in itertools.product(*alts):
        p = '/'.join(combo)
        for qcombo in itertools.product(*qalts.values()):
            qq = dict(zip(qalts.keys(), qcombo))
            typed = []
            if p.count('/**') > 1:
                raise SpilException('once')
            if '/**' in p:
                root = p.split('/**')[0]
                rt = [t for t in T if accepts(t, root)]
                if not rt: raise SpilException('root')
                for n in range(0, 12):
                    cand = p.replace('/**', '/*'*n)
                    for t in T:
                        d = accepts(t, cand)
                        if d and T[t][-1][0] == conf.leaf_keys.get(t.split('__')[0]):
                            typed.append((t, d))
            else:
                for t in T:
                    d = accepts(t, p)
                    if d: typed.append((t, d))
            for t, d in typed:
                f = dict(d)
                if qq:
                    for k, v in qq.items():
                        if v.startswith('~'):
                            if k in f: f[k] = v[1:]
                        else:
                            f[k] = v
                    nt = types_for_fields(f)
                    if not nt: continue
                    if len(nt) > 1:
                        if t in nt: pass
                        else: raise Ambiguous(s)
                    else: t = nt[0]
                # narrow
                nq = conf.basetyped_search_narrowing.get(t.split('__')[0])
                if nq:
                    for k, v in parse_q(nq).items():
                        if v.startswith('~'):
                            if k in f: f[k] = v[1:]
                        else: f[k] = v
                    nt = types_for_fields(f)
                    if not nt: continue
                    if t not in nt: t = nt[0]
                results.add(t + ':' + render(t, f))
    return results
