"""
C07 - unfold_search() of a typed search Sid OBJECT forgets the Sid's type.

"unfold_search(s) returns, without duplicates, exactly the typed search Sids denoted by s"

unfold_search (signature: search_sid: str | Sid) does str(search_sid): the type of a typed search Sid is
dropped and the bare string is re-typed by every template. The same Sid given as uri string keeps its type.
"""
import logging
import sys

from spil import Sid
from spil.util.log import setLevel
from spil.sid.read.tools import unfold_search


def main():
    setLevel(logging.FATAL)
    violated = False
    for uri in ["shot__movie_file:hamlet/s/*/*/*/*/*/*",
                "shot__cache_node:hamlet/s/sq010/sh0010/anim/v001/w/*",
                "shot__sequence:hamlet/*/*"]:
        sid = Sid(uri)
        assert sid.uri.split(":")[0] == uri.split(":")[0], sid.uri  # it IS a typed search Sid of that type
        from_obj = unfold_search(sid)
        from_uri = unfold_search(uri)
        print(f"search Sid object {sid!r}")
        print(f"    unfold_search(<Sid object>) -> {from_obj}")
        print(f"    unfold_search({uri!r}) -> {from_uri}")
        types = {s.type for s in from_obj}
        if from_obj != from_uri or types != {sid.type}:
            violated = True
            print(f"    VIOLATION: the Sid denotes type {sid.type!r} only, got types {sorted(types)}")
    return 1 if violated else 0


if __name__ == "__main__":
    sys.exit(main())
