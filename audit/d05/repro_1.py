"""
C08 - Sid.match() of an untyped Sid against a glob search.

"sid.match(s) is True exactly when the Sid would be found by s in a list containing only itself."

An untyped Sid (string conforms to no template) is found by FindInList([its string]).find(s)
whenever the string glob-matches an unfolded form of s, but Sid.match(s) always answers False.
"""
import logging
import sys

from spil import Sid, FindInList
from spil.util.log import setLevel


def main():
    setLevel(logging.FATAL)
    cases = [
        ("hamlet/s/foo", "hamlet/s/*"),            # 'foo' is no sequence (sq\d\d\d): untyped
        ("macbeth", "*"),                          # unknown project: untyped
        ("hamlet/s/sq01/sh0010", "hamlet/s/*/*"),
        ("macbeth/a/char/ophelia/rig/v001/w/ma", "*/a/**"),
    ]
    violated = False
    for string, search in cases:
        sid = Sid(string)
        found = list(FindInList([string]).find(search, as_sid=False))
        would_be_found = found == [string]
        matched = sid.match(search)
        print(f"Sid({string!r}) typed={bool(sid)}  search={search!r}")
        print(f"    FindInList([{string!r}]).find({search!r}) -> {found}")
        print(f"    Sid({string!r}).match({search!r})      -> {matched}")
        if matched != would_be_found:
            violated = True
            print("    VIOLATION: match() differs from 'found in a list containing only itself'")
    return 1 if violated else 0


if __name__ == "__main__":
    sys.exit(main())
