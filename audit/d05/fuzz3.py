import logging, random, sys, re
from spil import Sid, FindInList
from spil.util.log import setLevel
setLevel(logging.FATAL)
from spil.sid.read.tools import unfold_search
from spil.util.exception import SpilException
from fuzz1 import gen, vals
rnd = random.Random(int(sys.argv[1]))
def seg_match(p, v):
    return re.fullmatch(''.join('[^/]*' if c == '*' else re.escape(c) for c in p), v, re.S) is not None
def gmatch(pat, item):
    ps, vs = pat.split('/'), item.split('/')
    return len(ps) == len(vs) and all(seg_match(p, v) for p, v in zip(ps, vs))
pool = {
 0: ['hamlet', 'macbeth', 'ham.let', ''],
 1: ['a', 's', 'x'],
 2: ['char', 'prop', 'sq010', 'sq020', 'sq01', 'foo'],
 3: ['ophelia', 'o', 'sh0010', 'sh0020', 'o.phelia', 'oo*'],
 4: ['model', 'rig', 'anim', 'fx', 'zz'],
 5: ['v001', 'v002', 'v1'],
 6: ['w', 'p', 'q'],
 7: ['ma', 'mb', 'mov', 'abc', 'n1', 'maya', 'hip', 'hipnc', 'cache', 'zzz'],
 8: ['abc', 'vdb', 'ma'],
}
bad = 0
for it in range(int(sys.argv[2])):
    L = []
    for _ in range(rnd.randint(0, 25)):
        n = rnd.randint(1, 9)
        L.append('/'.join(rnd.choice(pool[i]) for i in range(n)))
    s = gen(rnd)
    if '>' in s: continue
    try:
        forms = unfold_search(s)
    except SpilException:
        continue
    exp = [x for x in dict.fromkeys(L) if any(gmatch(str(f), x) for f in forms)]
    try:
        got = list(FindInList(L).find(s, as_sid=False))
        got2 = [str(x) for x in FindInList(L).find(s)]
    except Exception as e:
        print('EXC', repr(s), e); bad += 1; continue
    if sorted(got) != sorted(exp) or got != got2:
        bad += 1
        print('MISMATCH', repr(s), 'forms', forms, '\n  exp', exp, '\n  got', got, got2)
    # match
    for x in set(L):
        sid = Sid(x)
        m = sid.match(s)
        f = list(FindInList([x]).find(s, as_sid=False)) == [x]
        if m != f:
            bad += 1
            print('MATCHDIFF', repr(x), bool(sid), repr(s), 'match', m, 'found', f)
print('bad', bad)
