import logging, random, sys
from spil import Sid, FindInList
from spil.util.log import setLevel
setLevel(logging.FATAL)
from spil.sid.read.tools import unfold_search
from spil.util.exception import SpilException
toks = ['hamlet', 's', 'a', '*', '**', '/', '/', '/', ',', '?', '=', '&', 'ext', 'maya', 'movie', 'type', 'sq010', 'sh0010', 'anim', 'v001', 'w', 'ma', '>', '<', ':', 'shot__file', 'asset', '~', '{', '}', '[', ']', '\\', '.', '|', '(', ')', '$', '^', '!', '\n', ' ', '%', '#', '"', "'", 'version', 'project', '', 'x', 'é', '\x00', ';', '@', '-']
rnd = random.Random(int(sys.argv[1]))
L = ['hamlet', 'hamlet/s', 'hamlet/s/sq010', 'hamlet/s/sq010/sh0010/anim/v001/w/ma', 'hamlet/a/char/ophelia/model/v001/w/ma', 'hamlet/s/sq010/sh0010/anim/v001/w/mov']
seen = {}
for i in range(int(sys.argv[2])):
    s = ''.join(rnd.choice(toks) for _ in range(rnd.randint(1, 12)))
    for name, fn in (('unfold', lambda: unfold_search(s)), ('find', lambda: list(FindInList(L).find(s))), ('match', lambda: Sid(L[3]).match(s))):
        try:
            fn()
        except SpilException:
            pass
        except Exception as e:
            k = (name, type(e).__name__, str(e)[:60])
            if k not in seen:
                seen[k] = s
                print(name, repr(s), type(e).__name__, e)
