import logging, random, itertools, string as _s
from spil import Sid, conf
from spil.util.log import setLevel
setLevel(logging.FATAL)
from spil.sid.read.tools import unfold_search
from spil.util.exception import SpilException
from spil.sid.core.sid_resolver import sid_to_dicts
from spil.conf import sid_templates, leaf_keys, extension_alias, basetyped_search_narrowing
from spil.sid.core import query_helper

def leaf_types():
    r = []
    for t, tpl in sid_templates.items():
        keys = [k[1] for k in _s.Formatter().parse(tpl) if k[1]]
        if keys[-1] == leaf_keys.get(t.split('__')[0]):
            r.append(t)
    return r
LEAF = leaf_types()
MAXLEN = max(tpl.count('/') + 1 for tpl in sid_templates.values())

def alias(seg):
    out = []
    for a in seg.split(','):
        a = a.strip()
        out.extend(extension_alias.get(a, [a]))
    return out

def ref(s):
    if '?' in s:
        path, query = s.split('?', 1)
    else:
        path, query = s, ''
    segs = path.split('/')
    alts = [[a.strip() for a in seg.split(',')] for seg in segs[:-1]] + [alias(segs[-1]) if segs[-1] else ['']]
    qd = query_helper.to_dict(query) if query else {}
    qalts = []
    for k, v in qd.items():
        if k == 'ext' and v:
            vs = alias(v)
        else:
            vs = v.split(',')
        qalts.append([(k, x) for x in vs])
    result = set()
    for combo in itertools.product(*alts):
        p = '/'.join(combo)
        for qcombo in itertools.product(*qalts):
            q = '&'.join('%s=%s' % kv for kv in qcombo)
            cands = []
            if p.count('/**') > 1:
                raise SpilException('two')
            if '/**' in p:
                root = p.split('/**')[0]
                if not Sid(root):
                    raise SpilException('root')
                for n in range(0, MAXLEN + 1):
                    c = p.replace('/**', '/*' * n)
                    for t in sid_to_dicts(c):
                        if t in LEAF:
                            cands.append((t, c))
            else:
                for t in sid_to_dicts(p):
                    cands.append((t, p))
            for t, c in cands:
                sid = Sid(t + ':' + c)
                assert sid, (t, c)
                if q:
                    sid = Sid(sid.uri + '?' + q)
                if not sid or '?' in sid.string:
                    continue
                nq = basetyped_search_narrowing.get(sid.basetype)
                if nq:
                    sid = sid.get_with(query=nq)
                if sid and '?' not in sid.string:
                    result.add(sid.uri)
    return result

vals = [
 ['hamlet', '*', 'hamlet,*', 'foo', '>'],
 ['a', 's', '*', 'a,s', '>', 'x'],
 ['char', 'sq010', '*', 'sq010,char', 'prop,sq020', '>', '**'],
 ['ophelia', 'sh0010', '*', 'o*', 'sh0010,sh0020', '**', '>'],
 ['model', 'anim', '*', 'rig,anim', '**', '>'],
 ['v001', '*', '>', 'v001,v002', '**'],
 ['w', 'p', '*', 'w,p', '**', '>'],
 ['ma', 'maya', 'movie', 'abc', 'cache', '*', 'n1', 'maya,mov', '**', 'hou', '>'],
 ['abc', 'cache', '*', 'ma', '**'],
]
qkeys = {'project': ['hamlet', '*'], 'type': ['a', 's', '*', '~a', '>'], 'sequence': ['sq010', '*', '~sq010', 'sq010,sq020'], 'assettype': ['char', '*'],
  'shot': ['sh0010', '*'], 'asset': ['ophelia', '*'], 'task': ['anim', 'model', '*', 'rig,anim', '~anim'], 'version': ['v001', '*', '>', 'v001,v002'], 'state': ['w', 'p', '*', 'w,p'],
  'ext': ['ma', 'maya', 'movie', 'abc', '*', 'maya,mov', 'cache', '~ma'], 'node': ['n1', '*'], 'foo': ['bar']}

def gen(rnd):
    n = rnd.randint(1, 9)
    segs = [rnd.choice(vals[i]) for i in range(n)]
    # at most tolerate stars
    s = '/'.join(segs)
    if rnd.random() < 0.5:
        ks = rnd.sample(list(qkeys), rnd.randint(1, 2))
        s += '?' + '&'.join('%s=%s' % (k, rnd.choice(qkeys[k])) for k in ks)
    return s

if __name__ == '__main__':
    import sys
    rnd = random.Random(int(sys.argv[1]) if len(sys.argv) > 1 else 0)
    seen = set()
    bad = 0
    for i in range(int(sys.argv[2]) if len(sys.argv) > 2 else 3000):
        s = gen(rnd)
        if s in seen: continue
        seen.add(s)
        try:
            exp = ref(s)
        except SpilException as e:
            exp = 'SPIL'
        try:
            got = unfold_search(s)
            gotu = set(x.uri for x in got)
            if len(gotu) != len(got): print('DUP', s, got)
        except SpilException:
            gotu = 'SPIL'
        except Exception as e:
            gotu = 'EXC %r' % e
        if exp != gotu:
            bad += 1
            print('MISMATCH', repr(s))
            if isinstance(exp, set) and isinstance(gotu, set):
                print('   missing:', sorted(exp - gotu))
                print('   extra  :', sorted(gotu - exp))
            else:
                print('   exp', exp if not isinstance(exp, set) else sorted(exp)); print('   got', gotu if not isinstance(gotu, set) else sorted(gotu))
    print('total', len(seen), 'bad', bad)
