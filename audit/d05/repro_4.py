"""
C07 (with C20) - a search without '**' is typed by the FIRST template only, when the part of the string
before its first '/*' is not itself a configured type.

"a string without '**' takes every type whose template accepts it"

simple_typing() first types the "root" (string up to the first '/*'); if that prefix has no type, it
falls back to Sid(search), i.e. first match. Configuration: two leaf types sharing their upper levels,
no intermediate types configured (to_extrapolate = []).
"""
import os
import subprocess
import sys
import tempfile
import shutil

CONF = r'''
sip = '/'
projects = ['hamlet']
sid_templates = {
    'shot__file':        '{project}/{sequence}/{shot}/{ext:scenes}',
    'shot__movie_file':  '{project}/{sequence}/{shot}/{ext:movies}',
    'project':           '{project}',
}
to_extrapolate = []
extension_alias = {'maya': ['ma', 'mb'], 'movie': ['mp4', 'mov']}
key_patterns = {
    '__': {
        '{project}':    r'{project:(hamlet|\*|\>)}',
        '{sequence}':   r'{sequence:(sq\d\d\d|\*|\>)}',
        '{shot}':       r'{shot:(sh\d\d\d\d|\*|\>)}',
        '{ext:scenes}': r'{ext:(ma|mb|\*|\>)}',
        '{ext:movies}': r'{ext:(mp4|mov|\*|\>)}',
    },
    'project': {
        '{project}': r'{project:(hamlet|\*|\>)}',
    },
}
key_types = {'shot': ['project', 'sequence', 'shot', 'ext'], 'project': ['project']}
leaf_keys = {'shot': 'ext', 'project': 'ext', None: 'ext'}
basetyped_search_narrowing = {}
typed_search_narrowing = {}
'''

CHILD = r'''
import logging, sys
from spil.util.log import setLevel
setLevel(logging.FATAL)
from spil.sid.read.tools import unfold_search
from spil.sid.core.sid_resolver import sid_to_dicts
bad = False
for s in ['hamlet/*/*/*', 'hamlet/sq010/*/*', 'hamlet/sq010/sh0010/*']:
    accepted = sorted(sid_to_dicts(s))          # every type whose template accepts the string
    got = unfold_search(s)
    print(f"search {s!r}: templates accepting it: {accepted}")
    print(f"    unfold_search -> {got}")
    if sorted(x.type for x in got) != accepted:
        bad = True
        print("    VIOLATION: not every accepting type is returned")
sys.exit(1 if bad else 0)
'''


def main():
    tmp = tempfile.mkdtemp(prefix="d05_conf_")
    try:
        with open(os.path.join(tmp, "spil_sid_conf.py"), "w") as f:
            f.write(CONF)
        with open(os.path.join(tmp, "child.py"), "w") as f:
            f.write(CHILD)
        env = dict(os.environ)
        env["PYTHONPATH"] = tmp + os.pathsep + env.get("PYTHONPATH", "")
        p = subprocess.run([sys.executable, os.path.join(tmp, "child.py")], env=env,
                           stdout=subprocess.PIPE, stderr=subprocess.DEVNULL, text=True)
        print(p.stdout)
        return 1 if p.returncode == 1 else 0
    finally:
        shutil.rmtree(tmp, ignore_errors=True)


if __name__ == "__main__":
    sys.exit(main())
