"""
C07 - unfold_search(s, do_extrapolate=True) loses typed searches that unfold_search(s) returns.

Docstring: "If do_extrapolate is True, all intermediate types are included in the result."
So the flag may only ADD the parent levels. But the extrapolate unfolder rebuilds every Sid from its bare string
(Sid(str(sid))), which is typed by the FIRST matching template: all other types sharing the string disappear.
"""
import logging
import sys

from spil.util.log import setLevel
from spil.sid.read.tools import unfold_search


def main():
    setLevel(logging.FATAL)
    violated = False
    for search in ["hamlet/s/**", "hamlet/s/sq010/sh0010/anim/v001/w/*", "hamlet/a/**?version=v001"]:
        plain = unfold_search(search)
        extra = unfold_search(search, do_extrapolate=True)
        lost = [s for s in plain if s not in extra]
        print(f"search {search!r}")
        print(f"    unfold_search(s)                      -> {plain}")
        print(f"    unfold_search(s, do_extrapolate=True) -> {extra}")
        if lost:
            violated = True
            print(f"    VIOLATION: typed searches denoted by s are missing: {lost}")
    return 1 if violated else 0


if __name__ == "__main__":
    sys.exit(main())
