"""
C11 (same root cause as repro_1, but with a plain search string, under a well-formed configuration):
the demo configuration, plus a path template for the 'shot__cache_node' level
(a folder per cache node, the node's cache files inside it).
'**' completes to LEAF types only: FindInPaths / FindInAll return files only,
FindInList also returns the (non leaf) cache node folders, because it ignores the type of the unfolded searches.

Run: PYTHONPATH=/tmp/spilwt7/d04:/tmp/spilwt7/d04/spil_hamlet_conf /venv/bin/python repro_2.py
"""
import os
import sys
import shutil
import logging
import subprocess
import tempfile
from pathlib import Path

HERE = Path(__file__).resolve().parent
WORKTREE = HERE.parent
DEMO = WORKTREE / "spil_hamlet_conf"

EXPORT = "{@project_root}/{project}/PROD/{type:SHOTS}/{sequence}/{sequence}_{shot}/{task}/{version}/EXPORT/"
OLD = "'shot__cache_node_file':   '" + EXPORT + "{sequence}_{shot}_{task}_{node}_{state}_{version}.{ext:caches}',"
NEW = ("'shot__cache_node_file':   '" + EXPORT + "{state}_{node}/{sequence}_{shot}_{task}_{node}_{state}_{version}.{ext:caches}',\n"
       "    'shot__cache_node':        '" + EXPORT + "{state}_{node}',")


def make_config():
    d = Path(tempfile.mkdtemp(prefix="spil_repro2_"))
    for f in DEMO.glob("*.py"):
        shutil.copy(f, d / f.name)
    shutil.copytree(DEMO / "hamlet_plugins", d / "hamlet_plugins")
    text = (d / "spil_fs_conf.py").read_text()
    assert OLD in text
    (d / "spil_fs_conf.py").write_text(text.replace(OLD, NEW))
    return d


def child():
    from spil import Sid, FindInPaths, FindInList, FindInAll, WriteToPaths
    from spil.sid.read.tools import unfold_search
    from spil.util.log import setLevel
    setLevel(logging.ERROR)

    entities = [
        "hamlet/s/sq010/sh0010/anim/v001/w/ma",
        "hamlet/s/sq010/sh0010/anim/v001/w/abc",
        "hamlet/s/sq010/sh0010/anim/v001/w/cam/abc",   # cache file of the node "cam" (creates the node folder too)
    ]
    for config in ("local", "server"):
        for e in entities:
            WriteToPaths(config).create(e)
    print("path of the node :", Sid("hamlet/s/sq010/sh0010/anim/v001/w/cam").path())
    print("Sid of that path :", repr(Sid(path=Sid("hamlet/s/sq010/sh0010/anim/v001/w/cam").path())))

    sid_list = set()
    for e in entities:
        s = Sid(e)
        while True:
            sid_list.add(str(s))
            if len(s) == 1:
                break
            s = s.parent
    sid_list = sorted(sid_list)

    violated = False
    for search in ("hamlet/s/sq010/sh0010/anim/v001/w/**", "hamlet/s/**"):
        print("search  :", search)
        print("unfolded:", unfold_search(search))
        results = {
            "FindInList": sorted(FindInList(sid_list).find(search, as_sid=False)),
            "FindInPaths(local)": sorted(FindInPaths("local").find(search, as_sid=False)),
            "FindInPaths(server)": sorted(FindInPaths("server").find(search, as_sid=False)),
            "FindInAll": sorted(FindInAll().find(search, as_sid=False)),
        }
        for name, r in results.items():
            print("  %-20s %s" % (name, r))
        if len(set(map(tuple, results.values()))) > 1:
            violated = True
        print()
    if violated:
        print("VIOLATION: the Finders do not return the same set (the node folder has a path and exists in all sources).")
        return 1
    print("no violation observed")
    return 0


def main():
    if len(sys.argv) > 1 and sys.argv[1] == "child":
        return child()
    d = make_config()
    try:
        env = dict(os.environ, PYTHONPATH=os.pathsep.join([str(WORKTREE), str(d)]))
        p = subprocess.run([sys.executable, str(Path(__file__).resolve()), "child"], env=env,
                           stdout=subprocess.PIPE, stderr=subprocess.PIPE, universal_newlines=True)
        print(p.stdout)
        if p.returncode not in (0, 1):
            print(p.stderr[-3000:])
        return p.returncode
    finally:
        shutil.rmtree(d, ignore_errors=True)


if __name__ == "__main__":
    sys.exit(main())
