"""
C11, under a well-formed configuration: the demo configuration with two projects and NO closed pattern for {project}
(so the project is a free value, like {asset} in the demo), the one-to-one path mapping HAMLET<->hamlet, MACBETH<->macbeth kept.
A partial glob on the mapped key ('ham*', 'h*/a/char/*') is typed (project is a free value) but is not mapped to the path:
FindInPaths globs for '.../PROJECTS/ham*' and finds nothing, FindInList finds the entities.

Run: PYTHONPATH=/tmp/spilwt7/d04:/tmp/spilwt7/d04/spil_hamlet_conf /venv/bin/python repro_3.py
"""
import os
import sys
import shutil
import logging
import subprocess
import tempfile
from pathlib import Path

HERE = Path(__file__).resolve().parent
WORKTREE = HERE.parent
DEMO = WORKTREE / "spil_hamlet_conf"

PATCHES = {
    "spil_sid_conf.py": [
        ("projects = ['hamlet']", "projects = ['hamlet', 'macbeth']"),
        ("        '{project}': r'{project:(' + '|'.join(projects) + r'|\\*|\\>)}',\n", ""),
    ],
    "spil_fs_conf.py": [
        ("        'HAMLET': 'hamlet',\n", "        'HAMLET': 'hamlet',\n        'MACBETH': 'macbeth',\n"),
        ("        '{project}':        r'{project:(' + '|'.join(project_path_names) + r'|\\*|\\>)}',\n", ""),
    ],
}


def make_config():
    d = Path(tempfile.mkdtemp(prefix="spil_repro3_"))
    for f in DEMO.glob("*.py"):
        shutil.copy(f, d / f.name)
    shutil.copytree(DEMO / "hamlet_plugins", d / "hamlet_plugins")
    for name, reps in PATCHES.items():
        text = (d / name).read_text()
        for old, new in reps:
            assert old in text, (name, old)
            text = text.replace(old, new)
        (d / name).write_text(text)
    return d


def child():
    from spil import Sid, FindInPaths, FindInList, WriteToPaths
    from spil.sid.read.tools import unfold_search
    from spil.util.log import setLevel
    setLevel(logging.ERROR)

    entities = ["hamlet/a/char/ophelia/rig/v001/w/ma", "macbeth/a/char/lady"]
    for config in ("local", "server"):
        for e in entities:
            WriteToPaths(config).create(e)
    for e in entities:  # the round trip Sid -> path -> Sid works
        p = Sid(e).path()
        print(e, "->", p.as_posix().split("/PROJECTS/")[1], "->", repr(Sid(path=p)))
        assert Sid(path=p) == Sid(e)

    sid_list = set()
    for e in entities:
        s = Sid(e)
        while True:
            sid_list.add(str(s))
            if len(s) == 1:
                break
            s = s.parent
    sid_list = sorted(sid_list)

    violated = False
    for search in ("ham*", "h*/a/char/*", "*t/a/char/*", "ham*/**/ma", "m*/a/char/*"):
        print("search  :", search, "  unfolded:", unfold_search(search))
        results = {
            "FindInList": sorted(FindInList(sid_list).find(search, as_sid=False)),
            "FindInPaths(local)": sorted(FindInPaths("local").find(search, as_sid=False)),
            "FindInPaths(server)": sorted(FindInPaths("server").find(search, as_sid=False)),
        }
        for name, r in results.items():
            print("  %-20s %s" % (name, r))
        if len(set(map(tuple, results.values()))) > 1:
            violated = True
    if violated:
        print("VIOLATION: FindInPaths and FindInList differ for a partial glob on a key that has a path mapping.")
        return 1
    print("no violation observed")
    return 0


def main():
    if len(sys.argv) > 1 and sys.argv[1] == "child":
        return child()
    d = make_config()
    try:
        env = dict(os.environ, PYTHONPATH=os.pathsep.join([str(WORKTREE), str(d)]))
        p = subprocess.run([sys.executable, str(Path(__file__).resolve()), "child"], env=env,
                           stdout=subprocess.PIPE, stderr=subprocess.PIPE, universal_newlines=True)
        print(p.stdout)
        if p.returncode not in (0, 1):
            print(p.stderr[-3000:])
        return p.returncode
    finally:
        shutil.rmtree(d, ignore_errors=True)


if __name__ == "__main__":
    sys.exit(main())
