"""
C11, same configuration as repro_3 (two projects, {project} a free value like {asset}; the data configuration is the demo one:
projects are backed by FindInConstants("project", projects)).
A partial glob on the level backed by constants is answered with ALL constants, also those that do not match the glob:
FindInAll().find('mac*') returns 'hamlet' as well, FindInList and FindInPaths return 'macbeth' only.

Run: PYTHONPATH=/tmp/spilwt7/d04:/tmp/spilwt7/d04/spil_hamlet_conf /venv/bin/python repro_4.py
"""
import os
import sys
import shutil
import logging
import subprocess
import tempfile
from pathlib import Path

HERE = Path(__file__).resolve().parent
WORKTREE = HERE.parent
DEMO = WORKTREE / "spil_hamlet_conf"

PATCHES = {
    "spil_sid_conf.py": [
        ("projects = ['hamlet']", "projects = ['hamlet', 'macbeth']"),
        ("        '{project}': r'{project:(' + '|'.join(projects) + r'|\\*|\\>)}',\n", ""),
    ],
    "spil_fs_conf.py": [
        ("        'HAMLET': 'hamlet',\n", "        'HAMLET': 'hamlet',\n        'MACBETH': 'macbeth',\n"),
        ("        '{project}':        r'{project:(' + '|'.join(project_path_names) + r'|\\*|\\>)}',\n", ""),
    ],
}


def make_config():
    d = Path(tempfile.mkdtemp(prefix="spil_repro4_"))
    for f in DEMO.glob("*.py"):
        shutil.copy(f, d / f.name)
    shutil.copytree(DEMO / "hamlet_plugins", d / "hamlet_plugins")
    for name, reps in PATCHES.items():
        text = (d / name).read_text()
        for old, new in reps:
            assert old in text, (name, old)
            text = text.replace(old, new)
        (d / name).write_text(text)
    return d


def child():
    from spil import Sid, FindInPaths, FindInList, FindInAll, FindInConstants, WriteToPaths
    from spil.sid.read.tools import unfold_search
    from spil.util.log import setLevel
    setLevel(logging.ERROR)

    entities = ["hamlet/a/char/ophelia", "macbeth/a/char/lady"]   # both projects exist, in every source
    for config in ("local", "server"):
        for e in entities:
            WriteToPaths(config).create(e)
    sid_list = set()
    for e in entities:
        s = Sid(e)
        while True:
            sid_list.add(str(s))
            if len(s) == 1:
                break
            s = s.parent
    sid_list = sorted(sid_list)

    violated = False
    for search in ("mac*", "*th", "x*"):
        print("search  :", search, "  unfolded:", unfold_search(search))
        results = {
            "FindInList": sorted(FindInList(sid_list).find(search, as_sid=False)),
            "FindInPaths(local)": sorted(FindInPaths("local").find(search, as_sid=False)),
            "FindInAll": sorted(FindInAll().find(search, as_sid=False)),
            "FindInConstants": sorted(FindInConstants("project", ["hamlet", "macbeth"]).find(search, as_sid=False)),
        }
        for name, r in results.items():
            print("  %-20s %s" % (name, r))
        not_matching = [r for r in results["FindInAll"] if not Sid(r).match(search)]
        print("  FindInAll results that do not match the search:", not_matching)
        if results["FindInAll"] != results["FindInList"] or not_matching:
            violated = True
    if violated:
        print("VIOLATION: FindInAll answers a partial glob on a constants level with constants that do not match it.")
        return 1
    print("no violation observed")
    return 0


def main():
    if len(sys.argv) > 1 and sys.argv[1] == "child":
        return child()
    d = make_config()
    try:
        env = dict(os.environ, PYTHONPATH=os.pathsep.join([str(WORKTREE), str(d)]))
        p = subprocess.run([sys.executable, str(Path(__file__).resolve()), "child"], env=env,
                           stdout=subprocess.PIPE, stderr=subprocess.PIPE, universal_newlines=True)
        print(p.stdout)
        if p.returncode not in (0, 1):
            print(p.stderr[-3000:])
        return p.returncode
    finally:
        shutil.rmtree(d, ignore_errors=True)


if __name__ == "__main__":
    sys.exit(main())
