"""
C11 - a search whose (free) value cannot be a file name: FindInList answers (nothing), FindInPaths and FindInAll raise ValueError.
The value is accepted by the Sid templates ({asset} is a free value), so the search is typed and unfolded normally.

Run: PYTHONPATH=/tmp/spilwt7/d04:/tmp/spilwt7/d04/spil_hamlet_conf /venv/bin/python repro_5.py
"""
import sys
import shutil
import logging


def main():
    from spil import Sid, FindInPaths, FindInList, FindInAll, WriteToPaths
    from spil.sid.read.tools import unfold_search
    from spil.util.log import setLevel
    setLevel(logging.ERROR)
    import spil_fs_conf

    top = spil_fs_conf.project_root_path.parent.parent  # .../data/testing/SPIL_PROJECTS
    if top.exists():
        print("test tree already exists, refusing to touch it:", top)
        return 2

    entities = ["hamlet/a/char/ophelia/rig"]
    sid_list = ["hamlet", "hamlet/a", "hamlet/a/char", "hamlet/a/char/ophelia", "hamlet/a/char/ophelia/rig"]
    violated = False
    try:
        for config in ("local", "server"):
            for e in entities:
                WriteToPaths(config).create(e)
        finders = {
            "FindInList": FindInList(sid_list),
            "FindInPaths(local)": FindInPaths("local"),
            "FindInPaths(server)": FindInPaths("server"),
            "FindInAll": FindInAll(),
        }
        for search in ("hamlet/a/char/x\x00y/*", "hamlet/a/char/x\ud800/*"):
            print("search  :", ascii(search), "  unfolded:", ascii(unfold_search(search)))
            for name, finder in finders.items():
                try:
                    r = sorted(finder.find(search, as_sid=False))
                except Exception as ex:  # noqa
                    r = "RAISES %s: %s" % (type(ex).__name__, ascii(str(ex))[:80])
                    violated = True
                print("  %-20s %s" % (name, r))
    finally:
        shutil.rmtree(top, ignore_errors=True)

    if violated:
        print("VIOLATION: the same search is answered by FindInList and makes FindInPaths / FindInAll fail.")
        return 1
    print("no violation observed")
    return 0


if __name__ == "__main__":
    sys.exit(main())
