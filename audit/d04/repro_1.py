"""
C11 - a typed search ('type:' prefixed search string): FindInList returns entries of OTHER types,
FindInPaths (local and server) and FindInAll return only the searched type.

Run: PYTHONPATH=/tmp/spilwt7/d04:/tmp/spilwt7/d04/spil_hamlet_conf /venv/bin/python repro_1.py
"""
import sys
import shutil
import logging


def main():
    from spil import Sid, FindInPaths, FindInList, FindInAll, WriteToPaths
    from spil.sid.read.tools import unfold_search
    from spil.util.log import setLevel
    setLevel(logging.ERROR)
    import spil_fs_conf

    top = spil_fs_conf.project_root_path.parent.parent  # .../data/testing/SPIL_PROJECTS
    if top.exists():
        print("test tree already exists, refusing to touch it:", top)
        return 2

    entities = [
        "hamlet/s/sq010/sh0010/anim/v001/w/ma",   # shot__file
        "hamlet/s/sq010/sh0010/anim/v001/w/mov",  # shot__movie_file
        "hamlet/s/sq010/sh0010/anim/v001/w/abc",  # shot__cache_file
    ]
    violated = False
    try:
        for config in ("local", "server"):
            for e in entities:
                WriteToPaths(config).create(e)

        # the corresponding list of Sids: the entities and all their ancestors
        sid_list = set()
        for e in entities:
            s = Sid(e)
            while True:
                sid_list.add(str(s))
                if len(s) == 1:
                    break
                s = s.parent
        sid_list = sorted(sid_list)

        for search in ("shot__cache_file:hamlet/s/sq010/sh0010/anim/v001/w/*",
                       "shot__movie_file:hamlet/s/sq010/*/*/*/*/*"):
            print("search  :", search)
            print("unfolded:", unfold_search(search))
            results = {
                "FindInList": sorted(FindInList(sid_list).find(search, as_sid=False)),
                "FindInPaths(local)": sorted(FindInPaths("local").find(search, as_sid=False)),
                "FindInPaths(server)": sorted(FindInPaths("server").find(search, as_sid=False)),
                "FindInAll": sorted(FindInAll().find(search, as_sid=False)),
            }
            for name, r in results.items():
                print("  %-20s %s" % (name, r))
            if len(set(map(tuple, results.values()))) > 1:
                violated = True
            print()
    finally:
        shutil.rmtree(top, ignore_errors=True)

    if violated:
        print("VIOLATION: the Finders do not return the same set for the same data and the same search.")
        return 1
    print("no violation observed")
    return 0


if __name__ == "__main__":
    sys.exit(main())
