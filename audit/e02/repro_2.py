"""
C05 (and C20): in a path configuration that uses `path_defaults` for what fs_resolver.dict_to_path documents
("adding template specific defaults": a key of the path template that the Sid does not have), Sid -> path works but
path -> Sid returns the empty Sid, and FindInPaths cannot find those entities.

Layout: on disk the state folder is above the version folder (.../<name>/WORK/v001), the Sid has the version above the state
(name/version/state/ext, as in the demo). The version folder of the Sid 'p1/foo/v001' is .../foo/WORK/v001 (default state WORK).
"""
import os, sys, subprocess, tempfile, shutil
from pathlib import Path

WORKTREE = str(Path(__file__).resolve().parent.parent)

SID_CONF = r'''
sip = '/'
sid_templates = {
    'item__file':  '{project}/{name}/{version}/{state}/{ext}',
    'project':     '{project}',
}
to_extrapolate = ['item__file']
extension_alias = {}
key_patterns = {
    '': {
        '{project}': r'{project:(p1|p2|\*|\>)}',
        '{version}': r'{version:(v\d\d\d|\*|\>)}',
        '{state}':   r'{state:(w|p|\*|\>)}',
        '{ext}':     r'{ext:(ma|mov|\*|\>)}',
    },
}
key_types = {'item': ['project', 'name', 'version', 'state', 'ext'], 'project': ['project']}
leaf_keys = {'item': 'ext', 'project': 'ext', None: 'ext'}
basetyped_search_narrowing = {}
typed_search_narrowing = {}
'''

FS_CONF = r'''
import os, copy
from spil_sid_conf import key_patterns
root = os.environ['REPRO_ROOT']
path_templates = {
    'item__file':     root + '/{project}/{name}/{state}/{version}/{name}_{version}.{ext}',
    'item__version':  root + '/{project}/{name}/{state}/{version}',     # the state folder is above the version folder
    'item__name':     root + '/{project}/{name}',
    'project':        root + '/{project}',
}
path_defaults = {'state': 'WORK'}          # as in the demo spil_fs_conf
sidkeys_to_extrakeys = {}
extrakeys_to_sidkeys = {}
path_mapping = {'state': {'WORK': 'w', 'PUBLISH': 'p'}}   # as in the demo spil_fs_conf
search_path_mapping = {}
key_patterns = copy.deepcopy(key_patterns)
key_patterns['']['{state}'] = r'{state:(WORK|PUBLISH|\*|\>)}'
'''

DATA_CONF = r'''
path_configs = {'local': 'spil_fs_conf'}
default_path_config = 'local'
def get_finder_for(search_sid, config=None):
    from spil import FindInPaths
    return FindInPaths()
def get_getter_for(sid, attribute=None, config=None):
    return None
path_data_suffix = '.data.json'
create_file_using_template = {}
create_file_using_touch = True
def get_data_json_path(sid_path):
    return sid_path.with_name('.' + sid_path.name + path_data_suffix)
'''

CHILD = r'''
import sys
from spil import Sid, FindInPaths
from spil.util.log import setLevel, ERROR
setLevel(ERROR)
bad = 0
for s in ('p1/foo/v001/w/ma', 'p1/foo/v001', 'p1/foo'):
    sid = Sid(s)
    p = sid.path('local')
    back = Sid(path=p, config='local')
    print(f'{sid!r:45} path: {p}\n{"":45} Sid(path=path): {back!r}   equal: {back == sid}')
    if p is not None and back != sid:
        bad += 1
# the file layer: the version folder exists on disk, but is not found
Sid('p1/foo/v001/w/ma').path().parent.mkdir(parents=True); Sid('p1/foo/v001/w/ma').path().touch()
print('files   :', list(FindInPaths().find('p1/foo/*/*/*', as_sid=False)))
print('versions:', list(FindInPaths().find('p1/foo/*', as_sid=False)), ' (the folder', Sid('p1/foo/v001').path(), 'exists:', Sid('p1/foo/v001').path().exists(), ')')
sys.exit(1 if bad else 0)
'''

if __name__ == "__main__":
    tmp = tempfile.mkdtemp(prefix='spil_repro2_')
    try:
        conf = os.path.join(tmp, 'conf'); os.makedirs(conf)
        for name, text in (('spil_sid_conf.py', SID_CONF), ('spil_fs_conf.py', FS_CONF), ('spil_data_conf.py', DATA_CONF), ('child.py', CHILD)):
            with open(os.path.join(conf, name), 'w') as f:
                f.write(text)
        env = dict(os.environ, PYTHONPATH=conf + os.pathsep + WORKTREE, REPRO_ROOT=os.path.join(tmp, 'PROJECTS'))
        r = subprocess.run([sys.executable, os.path.join(conf, 'child.py')], env=env, capture_output=True, text=True)
        print('\n'.join(l for l in r.stdout.splitlines() if not l.startswith('INFO')))
        if r.returncode not in (0, 1):
            print(r.stderr[-2000:])
        print('VIOLATION' if r.returncode == 1 else 'no violation observed')
        sys.exit(1 if r.returncode == 1 else 0)
    finally:
        shutil.rmtree(tmp, ignore_errors=True)
