"""
C06 (and C05 / C20): in a path configuration that uses `extrakeys_to_sidkeys` / `sidkeys_to_extrakeys` (the two dictionaries
every spil_fs_conf carries; fs_resolver: "mapping from extra keys" / "adding extra keys") to derive a Sid key from a folder
name that is not a Sid key, Sid(path=...) RAISES SpilException for every path of that type, and Sid.path() is None.

Layout: .../<project>/<folder>/<name>.<ext> with folder 'scenes' | 'movies'; the Sid is project/kind/name/ext with kind 's' | 'm'.
"""
import os, sys, subprocess, tempfile, shutil
from pathlib import Path

WORKTREE = str(Path(__file__).resolve().parent.parent)

SID_CONF = r'''
sip = '/'
sid_templates = {
    'item__file':  '{project}/{kind}/{name}/{ext}',
    'project':     '{project}',
}
to_extrapolate = ['item__file']
extension_alias = {}
key_patterns = {
    '': {
        '{project}': r'{project:(p1|p2|\*|\>)}',
        '{kind}':    r'{kind:(s|m|\*|\>)}',
        '{ext}':     r'{ext:(ma|mov|\*|\>)}',
    },
}
key_types = {'item': ['project', 'kind', 'name', 'ext'], 'project': ['project']}
leaf_keys = {'item': 'ext', 'project': 'ext', None: 'ext'}
basetyped_search_narrowing = {}
typed_search_narrowing = {}
'''

FS_CONF = r'''
import os, copy
from spil_sid_conf import key_patterns
root = os.environ['REPRO_ROOT']
path_templates = {
    'item__file':  root + '/{project}/{folder}/{name}.{ext}',
    'item__kind':  root + '/{project}/{folder}',
    'project':     root + '/{project}',
}
path_defaults = {}
sidkeys_to_extrakeys = {'kind': {'folder': {'s': 'scenes', 'm': 'movies', '*': '*'}}}
extrakeys_to_sidkeys = {'folder': {'kind': {'scenes': 's', 'movies': 'm', '*': '*'}}}
path_mapping = {}
search_path_mapping = {}
key_patterns = copy.deepcopy(key_patterns)
key_patterns['']['{folder}'] = r'{folder:(scenes|movies|\*|\>)}'
'''

DATA_CONF = r'''
path_configs = {'local': 'spil_fs_conf'}
default_path_config = 'local'
def get_finder_for(search_sid, config=None):
    from spil import FindInPaths
    return FindInPaths()
def get_getter_for(sid, attribute=None, config=None):
    return None
path_data_suffix = '.data.json'
create_file_using_template = {}
create_file_using_touch = True
def get_data_json_path(sid_path):
    return sid_path.with_name('.' + sid_path.name + path_data_suffix)
'''

CHILD = r'''
import os, sys
from spil import Sid
from spil.util.log import setLevel, ERROR
setLevel(ERROR)
root = os.environ['REPRO_ROOT']
bad = 0
for p in (root + '/p1/scenes/foo.ma', root + '/p1/movies', root + '/p1'):
    try:
        print('Sid(path=%r, config="local") ->' % p, repr(Sid(path=p, config='local')))
    except Exception as e:
        bad += 1
        print('Sid(path=%r, config="local") RAISES' % p, type(e).__name__, ':', e)
print("Sid('p1/s/foo/ma').path('local') ->", Sid('p1/s/foo/ma').path('local'))
sys.exit(1 if bad else 0)
'''

if __name__ == "__main__":
    tmp = tempfile.mkdtemp(prefix='spil_repro3_')
    try:
        conf = os.path.join(tmp, 'conf'); os.makedirs(conf)
        for name, text in (('spil_sid_conf.py', SID_CONF), ('spil_fs_conf.py', FS_CONF), ('spil_data_conf.py', DATA_CONF), ('child.py', CHILD)):
            with open(os.path.join(conf, name), 'w') as f:
                f.write(text)
        env = dict(os.environ, PYTHONPATH=conf + os.pathsep + WORKTREE, REPRO_ROOT=os.path.join(tmp, 'PROJECTS'))
        r = subprocess.run([sys.executable, os.path.join(conf, 'child.py')], env=env, capture_output=True, text=True)
        print('\n'.join(l for l in r.stdout.splitlines() if not l.startswith('INFO')))
        if r.returncode not in (0, 1):
            print(r.stderr[-2000:])
        print('VIOLATION' if r.returncode == 1 else 'no violation observed')
        sys.exit(1 if r.returncode == 1 else 0)
    finally:
        shutil.rmtree(tmp, ignore_errors=True)
