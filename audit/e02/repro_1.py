"""
C20 (with C11 / C10): under a well-formed non-demo configuration FindInList and FindInPaths disagree on a '**' search.

Configuration (follows the demo conventions, only the shape differs): below a version there are scene FILES
('.../v001/ma', leaf type shot__file) and layer FOLDERS ('.../v001/BG', type shot__layer) that hold image files
('.../v001/BG/exr', leaf type shot__image). Level 6 is mutually exclusive: ext is (ma|mb), layer is [A-Z]+.
All three types have a path template. In the demo configuration the only non-leaf type that shares its depth with a
leaf type (shot__cache_node) has no path template, which hides the difference.
"""
import os, sys, subprocess, tempfile, shutil, textwrap
from pathlib import Path

WORKTREE = str(Path(__file__).resolve().parent.parent)

SID_CONF = r'''
sip = '/'
sid_templates = {
    'shot__image':   '{project}/{type:s}/{seq}/{shot}/{version}/{layer}/{ext:images}',
    'shot__file':    '{project}/{type:s}/{seq}/{shot}/{version}/{ext:scenes}',
    'shot__layer':   '{project}/{type:s}/{seq}/{shot}/{version}/{layer}',
    'shot':          '{project}/{type:s}',
    'project':       '{project}',
}
to_extrapolate = ['shot__layer']
extension_alias = {}
key_patterns = {
    'shot': {
        '{type:s}':      r'{type:(s|\*|\>)}',
        '{seq}':         r'{seq:(sq\d\d\d|\*|\>)}',
        '{shot}':        r'{shot:(sh\d\d\d\d|\*|\>)}',
        '{version}':     r'{version:(v\d\d\d|\*|\>)}',
        '{layer}':       r'{layer:([A-Z]+|\*|\>)}',
        '{ext:scenes}':  r'{ext:(ma|mb|\*|\>)}',
        '{ext:images}':  r'{ext:(exr|jpg|\*|\>)}',
    },
    '': {'{project}':    r'{project:(hamlet|\*|\>)}'},
}
key_types = {'shot': ['project', 'type', 'seq', 'shot', 'version', 'layer', 'ext'], 'project': ['project']}
leaf_keys = {'shot': 'ext', 'project': 'ext', None: 'ext'}
basetyped_search_narrowing = {'shot': 'type=~s'}
typed_search_narrowing = {}
'''

FS_CONF = r'''
import os, copy
from spil_sid_conf import key_patterns
root = os.environ['REPRO_ROOT']
path_templates = {
    'shot__image':   root + '/{project}/{type:s}/{seq}/{shot}/{version}/{layer}/{shot}_{layer}.{ext:images}',
    'shot__file':    root + '/{project}/{type:s}/{seq}/{shot}/{version}/{seq}_{shot}_{version}.{ext:scenes}',
    'shot__layer':   root + '/{project}/{type:s}/{seq}/{shot}/{version}/{layer}',
    'shot__version': root + '/{project}/{type:s}/{seq}/{shot}/{version}',
    'shot__shot':    root + '/{project}/{type:s}/{seq}/{shot}',
    'shot__seq':     root + '/{project}/{type:s}/{seq}',
    'shot':          root + '/{project}/{type:s}',
    'project':       root + '/{project}',
}
path_defaults = {}
sidkeys_to_extrakeys = {}
extrakeys_to_sidkeys = {}
path_mapping = {'type': {'SHOTS': 's'}}
search_path_mapping = {}
key_patterns = copy.deepcopy(key_patterns)
key_patterns['shot']['{type:s}'] = r'{type:(SHOTS|\*|\>)}'
'''

DATA_CONF = r'''
path_configs = {'local': 'spil_fs_conf'}
default_path_config = 'local'
def get_finder_for(search_sid, config=None):
    from spil import FindInPaths
    return FindInPaths()
def get_getter_for(sid, attribute=None, config=None):
    return None
path_data_suffix = '.data.json'
create_file_using_template = {}
create_file_using_touch = True
def get_data_json_path(sid_path):
    return sid_path.with_name('.' + sid_path.name + path_data_suffix)
'''

CHILD = r'''
import sys
from spil import Sid, FindInPaths, FindInList
from spil.sid.read.tools import unfold_search
from spil.sid.core.utils import extrapolate
from spil.util.log import setLevel, ERROR
setLevel(ERROR)
leaves = []
for shot in ('sh0010', 'sh0020'):
    for v in ('v001', 'v002'):
        leaves += [f'hamlet/s/sq010/{shot}/{v}/ma', f'hamlet/s/sq010/{shot}/{v}/BG/exr', f'hamlet/s/sq010/{shot}/{v}/FG/exr']
entities = sorted(set(extrapolate(leaves)))
for s in entities:                       # every entity is typed, has a path, and the path resolves back (C05 holds here)
    sid = Sid(s); p = sid.path()
    assert sid and p is not None and Sid(path=p) == sid, s
    if sid.keytype == 'ext':
        p.parent.mkdir(parents=True, exist_ok=True); p.touch()
    else:
        p.mkdir(parents=True, exist_ok=True)
bad = 0
for search in ('hamlet/s/**', 'hamlet/s/sq010/sh0010/v001/**', 'hamlet/s/sq010/sh0010/v001/*', 'hamlet/s/sq010/*/*/*/*'):
    in_paths = sorted(FindInPaths().find(search, as_sid=False))
    in_list = sorted(FindInList(entities).find(search, as_sid=False))
    print('search      :', search)
    print('unfolds to  :', [s.uri for s in unfold_search(search)])
    print('FindInPaths :', len(in_paths), 'FindInList :', len(in_list))
    extra = sorted(set(in_list) - set(in_paths)); missing = sorted(set(in_paths) - set(in_list))
    if extra or missing:
        bad += 1
        print('  only in FindInList :', [repr(Sid(x)) for x in extra][:4], '...' if len(extra) > 4 else '')
        print('  only in FindInPaths:', missing[:4])
sys.exit(1 if bad else 0)
'''

if __name__ == "__main__":
    tmp = tempfile.mkdtemp(prefix='spil_repro1_')
    try:
        conf = os.path.join(tmp, 'conf'); os.makedirs(conf)
        for name, text in (('spil_sid_conf.py', SID_CONF), ('spil_fs_conf.py', FS_CONF), ('spil_data_conf.py', DATA_CONF), ('child.py', CHILD)):
            with open(os.path.join(conf, name), 'w') as f:
                f.write(text)
        env = dict(os.environ, PYTHONPATH=conf + os.pathsep + WORKTREE, REPRO_ROOT=os.path.join(tmp, 'PROJECTS'))
        r = subprocess.run([sys.executable, os.path.join(conf, 'child.py')], env=env, capture_output=True, text=True)
        print('\n'.join(l for l in r.stdout.splitlines() if not l.startswith('INFO')))
        if r.returncode not in (0, 1):
            print(r.stderr[-2000:])
        print('VIOLATION' if r.returncode == 1 else 'no violation observed')
        sys.exit(1 if r.returncode == 1 else 0)
    finally:
        shutil.rmtree(tmp, ignore_errors=True)
