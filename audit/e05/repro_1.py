"""
C16 (borderline, low confidence): get_data / get_attr answer with a 'sid' record for a Sid that get() / get_one() / find() have no record for.
Run: PYTHONPATH=/tmp/spilwt8/e05:/tmp/spilwt8/e05/spil_hamlet_conf /venv/bin/python repro_1.py
"""
import shutil
import sys
from pathlib import Path


def main():
    import spil
    from spil import Sid, WriteToPaths, GetFromPaths, GetFromAll, FindInPaths

    root = Path(spil.__file__).parent.parent / "spil_hamlet_conf" / "data" / "testing" / "SPIL_PROJECTS"
    shutil.rmtree(root, ignore_errors=True)
    violated = False
    try:
        WriteToPaths().create("hamlet/a/char/ophelia", {"owner": "will"})
        ghost = "hamlet/a/char/nobody"  # never created
        for getter in (GetFromPaths(), GetFromAll()):
            name = type(getter).__name__
            records = list(getter.get(ghost))
            one = getter.get_one(ghost)
            data = getter.get_data(ghost)
            attr = getter.get_attr(ghost, "sid")
            print(f"{name}: find({ghost!r})      -> {list(FindInPaths().find(ghost))}")
            print(f"{name}: get({ghost!r})       -> {records}")
            print(f"{name}: get_one({ghost!r})   -> {one}")
            print(f"{name}: get_data({ghost!r})  -> {data}")
            print(f"{name}: get_attr({ghost!r}, 'sid') -> {attr!r}")
            if not records and not one and (data or attr):
                violated = True
        print("Sid(ghost).exists() ->", Sid(ghost).exists(), "/ Sid(ghost).get_attr('sid') ->", repr(Sid(ghost).get_attr("sid")))
    finally:
        shutil.rmtree(root, ignore_errors=True)
    print("VIOLATION observed" if violated else "no violation")
    return 1 if violated else 0


if __name__ == "__main__":
    sys.exit(main())
