"""
C20 (with C05 / C08 / C11) - "... value mappings that are one-to-one ...", "Nothing in the library depends
on the demo configuration's ... value vocabulary".

In the demo every key that has a path_mapping (project, type, state) is a closed list of values.
Here the first key is open (any show name, no list of projects to maintain) and two shows have a
one-to-one folder mapping  {'MACBETH': 'macbeth', 'LEAR': 'lear'} ; everything else as in the demo.

 a) partial glob: FindInList(L).find('mac*') -> ['macbeth'],  FindInPaths().find('mac*') -> []
    ('*th*' finds 'macbeth' and 'othello' in the list, only 'othello' on disk), same with 'mac*/**'.
    C08: "'*' inside a segment matches any run of characters", C11: both Finders return the same set.
 b) Sid('MACBETH/item') and Sid('macbeth/item') are different typed Sids with the SAME path, and
    Sid(path=Sid('MACBETH/item').path()) is the other one.
    C05: "two different Sids never map to the same path", "Sid(path=sid.path(c), config=c) equals the Sid".

Run: PYTHONPATH=/tmp/spilwt6/c10:/tmp/spilwt6/c10/spil_hamlet_conf /venv/bin/python repro_5.py
(the alternative configuration is written to a temporary directory and used in a subprocess)
"""
import os
import shutil
import subprocess
import sys
import tempfile

LIB = os.path.dirname(os.path.dirname(os.path.abspath(__file__)))

SID_CONF = r'''
sip = '/'
projects = []
sid_templates = {
    'item__doc':   '{show}/{kind:item}/{name}/{fmt:docs}',
    'item__name':  '{show}/{kind:item}/{name}',
    'show':        '{show}',
}
to_extrapolate = ['item__name']
docs = ['txt', 'md', 'doc']
extension_alias = {'doc': ['txt', 'md']}
key_patterns = {
    '': {
        '{kind:item}': r'{kind:(item|\*|\>)}',
        '{fmt:docs}': r'{fmt:(' + '|'.join(docs) + r'|\*|\>)}',
    },
}
key_types = {
    'item': ['show', 'kind', 'name', 'fmt'],
    'show': ['show'],
}
leaf_keys = {'item': 'fmt', 'show': 'fmt', None: 'fmt'}
basetyped_search_narrowing = {'item': 'kind=~item'}
typed_search_narrowing = {}
'''

FS_CONF = r'''
import os
from spil_sid_conf import key_patterns
root = os.environ['ALT_ROOT']
path_templates = {
    'item__doc':   root + '/{show}/{kind:items}/{name}/{name}.{fmt:docs}',
    'item__name':  root + '/{show}/{kind:items}/{name}',
    'item__kind':  root + '/{show}/{kind:items}',
    'show':        root + '/{show}',
}
path_defaults = {}
sidkeys_to_extrakeys = {}
extrakeys_to_sidkeys = {}
path_mapping = {
    'show': {'MACBETH': 'macbeth', 'LEAR': 'lear'},
    'kind': {'items': 'item'},
}
search_path_mapping = {}
key_patterns = {k: dict(v) for k, v in key_patterns.items()}
key_patterns[''].update({'{kind:items}': r'{kind:(items|\*|\>)}'})
'''

DATA_CONF = r'''
path_configs = {'local': 'spil_fs_conf'}
default_path_config = 'local'
def get_finder_for(search_sid, config=None):
    from spil import FindInPaths
    return FindInPaths()
def get_getter_for(sid, attribute=None, config=None):
    return None
path_data_suffix = '.data.json'
create_file_using_template = {}
create_file_using_touch = True
def get_data_json_path(sid_path):
    return sid_path.with_name('.' + sid_path.stem + path_data_suffix)
'''

CODE = r'''
import os, sys
from spil import Sid, FindInList, FindInPaths, WriteToPaths
from spil.sid.core.utils import extrapolate
from spil.util.log import setLevel
setLevel(100)
root = os.environ['ALT_ROOT']
leaves = ['macbeth/item/witch/txt', 'lear/item/fool/txt', 'othello/item/iago/txt']
for s in leaves:
    sid = Sid(s)
    assert Sid(path=sid.path()) == sid
    WriteToPaths().create(s)
    print("created %-24s at %s" % (s, str(sid.path()).replace(root, '<root>')))
L = sorted(set(extrapolate(leaves)))
violated = False
print("a) partial globs")
for search in ['*', 'o*', 'mac*', '*th*', 'mac*/item/*', 'mac*/**']:
    in_list = sorted(str(x) for x in FindInList(L).find(search))
    in_paths = sorted(str(x) for x in FindInPaths().find(search))
    print("   %-12r FindInList %-50s FindInPaths %s" % (search, in_list, in_paths))
    if in_list != in_paths:
        violated = True
print("b) two Sids, one path")
a, b = Sid('macbeth/item'), Sid('MACBETH/item')
print("   %r -> %s" % (a, str(a.path()).replace(root, '<root>')))
print("   %r -> %s" % (b, str(b.path()).replace(root, '<root>')))
print("   equal Sids: %s, equal paths: %s, Sid(path=<path of the second>) -> %r" % (a == b, a.path() == b.path(), Sid(path=b.path())))
if a != b and a.path() == b.path():
    violated = True
print("VIOLATION" if violated else "ok")
sys.exit(1 if violated else 0)
'''


def main():
    tmp = tempfile.mkdtemp(prefix="spil_audit_")
    try:
        for name, text in (("spil_sid_conf.py", SID_CONF), ("spil_fs_conf.py", FS_CONF),
                           ("spil_data_conf.py", DATA_CONF), ("code.py", CODE)):
            with open(os.path.join(tmp, name), "w") as f:
                f.write(text)
        env = dict(os.environ, PYTHONPATH=tmp + os.pathsep + LIB, ALT_ROOT=os.path.join(tmp, "ROOT"), HOME=tmp)
        p = subprocess.run([sys.executable, "-W", "ignore", os.path.join(tmp, "code.py")],
                           env=env, capture_output=True, text=True)
        print("\n".join(line for line in p.stdout.splitlines() if not line.startswith("INFO")))
        if p.returncode not in (0, 1):
            print(p.stderr[-2000:])
        return p.returncode
    finally:
        shutil.rmtree(tmp, ignore_errors=True)


if __name__ == "__main__":
    sys.exit(main())
