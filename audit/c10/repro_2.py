"""
C20 (with C07 / C10) - "a leaf key per basetype", "Nothing in the library depends on the demo
configuration's key names".

Configuration with two basetypes whose leaf keys have different names
(leaf_keys = {'item': 'fmt', 'reel': 'media', ...}). Everything else follows the demo conventions.

'macbeth/*/**' is expanded with the leaf key of the FIRST type that happens to match the root
'macbeth/*' ('item'), so the leaves of the other basetype are silently dropped:
   find('macbeth/*/**')  !=  union over n of find('macbeth/*' + n x '/*') restricted to leaf types
   find('macbeth/*/**')  !=  find('macbeth/item,reel/**')

Run: PYTHONPATH=/tmp/spilwt6/c10:/tmp/spilwt6/c10/spil_hamlet_conf /venv/bin/python repro_2.py
(the alternative configuration is written to a temporary directory and used in a subprocess)
"""
import os
import shutil
import subprocess
import sys
import tempfile

LIB = os.path.dirname(os.path.dirname(os.path.abspath(__file__)))

SID_CONF = r'''
sip = '/'
projects = ['macbeth', 'lear']
sid_templates = {
    'item__doc':   '{show}/{kind:item}/{group}/{name}/{fmt:docs}',
    'item__name':  '{show}/{kind:item}/{group}/{name}',
    'item':        '{show}/{kind:item}',
    'reel__doc':   '{show}/{kind:reel}/{reel}/{clip}/{media:docs}',
    'reel__clip':  '{show}/{kind:reel}/{reel}/{clip}',
    'reel':        '{show}/{kind:reel}',
    'show':        '{show}',
}
to_extrapolate = ['item__name', 'reel__clip']
docs = ['txt', 'md', 'doc']
extension_alias = {'doc': ['txt', 'md']}
key_patterns = {
    '': {
        '{show}': r'{show:(' + '|'.join(projects) + r'|\*|\>)}',
        '{kind:item}': r'{kind:(item|\*|\>)}',
        '{kind:reel}': r'{kind:(reel|\*|\>)}',
        '{group}': r'{group:(hero|crowd|\*|\>)}',
        '{reel}': r'{reel:(R\d\d|\*|\>)}',
        '{clip}': r'{clip:(c\d\d\d|\*|\>)}',
        '{fmt:docs}': r'{fmt:(' + '|'.join(docs) + r'|\*|\>)}',
        '{media:docs}': r'{media:(' + '|'.join(docs) + r'|\*|\>)}',
    },
}
key_types = {
    'item': ['show', 'kind', 'group', 'name', 'fmt'],
    'reel': ['show', 'kind', 'reel', 'clip', 'media'],
    'show': ['show'],
}
# a leaf key per basetype
leaf_keys = {'item': 'fmt', 'reel': 'media', 'show': 'fmt', None: 'fmt'}
basetyped_search_narrowing = {'item': 'kind=~item', 'reel': 'kind=~reel'}
typed_search_narrowing = {}
'''

FS_CONF = r'''
import os
from spil_sid_conf import key_patterns
root = os.environ['ALT_ROOT']
path_templates = {
    'item__doc':   root + '/{show}/{kind:item}/{group}/{name}/{name}.{fmt:docs}',
    'item__name':  root + '/{show}/{kind:item}/{group}/{name}',
    'item__group': root + '/{show}/{kind:item}/{group}',
    'item':        root + '/{show}/{kind:item}',
    'reel__doc':   root + '/{show}/{kind:reel}/{reel}/{clip}/{reel}-{clip}.{media:docs}',
    'reel__clip':  root + '/{show}/{kind:reel}/{reel}/{clip}',
    'reel__reel':  root + '/{show}/{kind:reel}/{reel}',
    'reel':        root + '/{show}/{kind:reel}',
    'show':        root + '/{show}',
}
path_defaults = {}
sidkeys_to_extrakeys = {}
extrakeys_to_sidkeys = {}
path_mapping = {}
search_path_mapping = {}
'''

DATA_CONF = r'''
path_configs = {'local': 'spil_fs_conf'}
default_path_config = 'local'
def get_finder_for(search_sid, config=None):
    from spil import FindInPaths
    return FindInPaths()
def get_getter_for(sid, attribute=None, config=None):
    return None
path_data_suffix = '.data.json'
create_file_using_template = {}
create_file_using_touch = True
def get_data_json_path(sid_path):
    return sid_path.with_name('.' + sid_path.stem + path_data_suffix)
'''

CODE = r'''
import sys
from spil import Sid, conf, FindInList, FindInPaths, WriteToPaths
from spil.sid.read.tools import unfold_search
from spil.util.log import setLevel
setLevel(100)

L = ['macbeth/item/hero/witch/txt', 'macbeth/reel/R01/c001/txt', 'macbeth/reel/R01/c001/md']
for s in L:
    assert Sid(s).is_leaf(), s            # both kinds of entries are leaves of their basetype
    WriteToPaths().create(s)
print("leaf_keys:", conf.leaf_keys)
print("entries  :", L)

violated = False
for name, finder in (("FindInList", FindInList(L)), ("FindInPaths", FindInPaths())):
    search = 'macbeth/*/**'
    got = sorted(str(x) for x in finder.find(search))
    union = set()
    for n in range(0, 6):
        s = 'macbeth/*' + '/*' * n
        union |= {str(x) for x in finder.find(s) if x.is_leaf()}
    alt = sorted(str(x) for x in finder.find('macbeth/item,reel/**'))
    print(name)
    print("  unfold_search(%r) -> %s" % (search, unfold_search(search)))
    print("  find(%r)                       -> %s" % (search, got))
    print("  union of find('macbeth/*' + n x '/*'), leaves -> %s" % sorted(union))
    print("  find('macbeth/item,reel/**')             -> %s" % alt)
    if got != sorted(union) or got != alt:
        violated = True
print("VIOLATION" if violated else "ok")
sys.exit(1 if violated else 0)
'''


def main():
    tmp = tempfile.mkdtemp(prefix="spil_audit_")
    try:
        for name, text in (("spil_sid_conf.py", SID_CONF), ("spil_fs_conf.py", FS_CONF),
                           ("spil_data_conf.py", DATA_CONF), ("code.py", CODE)):
            with open(os.path.join(tmp, name), "w") as f:
                f.write(text)
        env = dict(os.environ, PYTHONPATH=tmp + os.pathsep + LIB, ALT_ROOT=os.path.join(tmp, "ROOT"), HOME=tmp)
        p = subprocess.run([sys.executable, "-W", "ignore", os.path.join(tmp, "code.py")],
                           env=env, capture_output=True, text=True)
        print("\n".join(line for line in p.stdout.splitlines() if not line.startswith("INFO")))
        if p.returncode not in (0, 1):
            print(p.stderr[-2000:])
        return p.returncode
    finally:
        shutil.rmtree(tmp, ignore_errors=True)


if __name__ == "__main__":
    sys.exit(main())
