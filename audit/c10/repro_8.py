"""
C16 (low confidence) - "GetFromAll answers the same for every type that has a configured Getter ...;
get_one / get_data / get_attr are the first record, the record of that Sid, and one value of it."

For the attribute name 'next.version' GetFromAll().get_attr() is not a value of the Sid's record:
  GetFromAll().get_data(sid)['next.version']      -> 'stored'   (what was written)
  GetFromPaths().get_attr(sid, 'next.version')    -> 'stored'
  GetFromAll().get_attr(sid, 'next.version')      -> Sid('')    (answered by another Getter)
and for a Sid without such data it returns a Sid instead of None.

Run: PYTHONPATH=/tmp/spilwt6/c10:/tmp/spilwt6/c10/spil_hamlet_conf /venv/bin/python repro_8.py
"""
import os
import shutil
import sys


def main():
    from spil import Sid, GetFromPaths, GetFromAll, WriteToPaths
    from spil.conf import get_data_json_path
    from spil.util.log import setLevel
    setLevel(100)

    sid = Sid("hamlet/a/char/zzaudit8")
    path = sid.path()
    first_missing = path
    while not first_missing.parent.exists():
        first_missing = first_missing.parent
    WriteToPaths().create(sid)
    try:
        WriteToPaths().update(sid, {"next.version": "stored", "a": 1})
        record = GetFromAll().get_data(sid)
        v_all = GetFromAll().get_attr(sid, "next.version")
        v_paths = GetFromPaths().get_attr(sid, "next.version")
        print("GetFromAll().get_data(sid)                   ->", record)
        print("GetFromPaths().get_attr(sid, 'next.version') ->", repr(v_paths))
        print("GetFromAll().get_attr(sid, 'next.version')   ->", repr(v_all))
        print("GetFromAll().get_attr(sid, 'a')              ->", repr(GetFromAll().get_attr(sid, "a")))
        violated = v_all != record.get("next.version")
    finally:
        sidecar = get_data_json_path(path)
        if sidecar.exists():
            os.remove(sidecar)
        shutil.rmtree(first_missing)
    print("VIOLATION" if violated else "ok")
    return 1 if violated else 0


if __name__ == "__main__":
    sys.exit(main())
