"""
C16 - "For every search, GetFromPaths(c).get(s) yields exactly one mapping per Sid that
FindInPaths(c).find(s) yields, in the same order".

An existing entity whose (legal) folder name is 250 characters long is found by FindInPaths,
but GetFromPaths.get() of the same search raises OSError (File name too long) while looking
for the sidecar: the whole search fails, also for the other entities.

Run: PYTHONPATH=/tmp/spilwt6/c10:/tmp/spilwt6/c10/spil_hamlet_conf /venv/bin/python repro_1.py
"""
import shutil
import sys


def main():
    from spil import Sid, FindInPaths, GetFromPaths, GetFromAll, WriteToPaths
    from spil.util.log import setLevel
    setLevel(100)

    short = Sid("hamlet/a/char/zzshort")
    long_ = Sid("hamlet/a/char/" + "z" * 250)
    assert short.type == long_.type == "asset__asset"

    # what we create, to clean up afterwards (first missing ancestor of each path)
    to_remove = []
    for sid in (short, long_):
        p = sid.path()
        first_missing = p
        while not first_missing.parent.exists():
            first_missing = first_missing.parent
        if not p.exists():
            to_remove.append(first_missing)
        if not p.exists():
            WriteToPaths().create(sid)

    violated = False
    try:
        search = "hamlet/a/char/zz*"
        found = [str(s) for s in FindInPaths().find(search)]
        print(f"search: {search!r}")
        print(f"FindInPaths().find -> {len(found)} Sids (name lengths: {[len(s.split('/')[-1]) for s in found]})")
        for name, getter in (("GetFromPaths()", GetFromPaths()), ("GetFromAll()", GetFromAll())):
            try:
                got = [d.get("sid") for d in getter.get(search)]
                print(f"{name}.get -> {len(got)} records")
                if got != found:
                    violated = True
            except Exception as e:  # noqa
                print(f"{name}.get -> RAISED {type(e).__name__}: {str(e)[:60]}...")
                violated = True
        try:
            print("get_one ->", GetFromPaths().get_one(str(long_)))
        except Exception as e:  # noqa
            print(f"GetFromPaths().get_one(<the long Sid>) -> RAISED {type(e).__name__}: {str(e)[:60]}...")
            violated = True
    finally:
        for p in to_remove:
            if p.exists():
                shutil.rmtree(p)

    print("VIOLATION" if violated else "ok")
    return 1 if violated else 0


if __name__ == "__main__":
    sys.exit(main())
