"""
C20 (with C19) - "The guarantees hold for any well-formed configuration", "value vocabulary".

The demo writes value patterns inline in the templates ('{type:a}'), and resolva's own default
pattern is '[^/]*'. A configuration that forbids empty names with the natural inline pattern
'{name:[^/]+}' in a type listed in to_extrapolate is cut in the middle of the pattern: extrapolation
splits the template at every '/', also the one inside the pattern. It generates a type named
'item__]+' and the template '{show}/{kind:item}/{name:[^' ; spil then cannot be imported at all
with that configuration.

C19: "adds ... one type for every '/'-prefix of its template ..., named basetype + separator + last
key of that prefix ...; the result has no duplicate type names or templates and nothing else is added."

Run: PYTHONPATH=/tmp/spilwt6/c10:/tmp/spilwt6/c10/spil_hamlet_conf /venv/bin/python repro_6.py
"""
import os
import shutil
import subprocess
import sys
import tempfile

LIB = os.path.dirname(os.path.dirname(os.path.abspath(__file__)))

SID_CONF = r'''
sip = '/'
projects = ['macbeth']
sid_templates = {
    'item__rev': r'{show}/{kind:item}/{name:[^/]+}/{rev:r\d+}',
    'show':      '{show}',
}
to_extrapolate = ['item__rev']
extension_alias = {}
key_patterns = {}
key_types = {'item': ['show', 'kind', 'name', 'rev'], 'show': ['show']}
leaf_keys = {'item': 'rev', 'show': 'rev', None: 'rev'}
basetyped_search_narrowing = {}
typed_search_narrowing = {}
'''

DATA_CONF = r'''
path_configs = {}
default_path_config = ''
def get_finder_for(search_sid, config=None):
    return None
def get_getter_for(sid, attribute=None, config=None):
    return None
path_data_suffix = '.data.json'
create_file_using_template = {}
create_file_using_touch = True
def get_data_json_path(sid_path):
    return sid_path
'''

CODE = r'''
from spil import Sid, conf
print("templates:", dict(conf.sid_templates))
print(repr(Sid('macbeth/item/witch/r1')), repr(Sid('macbeth/item/witch')), repr(Sid('macbeth/item//r1')))
'''


def main():
    from spil.conf.util import extrapolate_templates

    templates = {
        "item__rev": r"{show}/{kind:item}/{name:[^/]+}/{rev:r\d+}",
        "show": "{show}",
    }
    print("sid_templates :", templates)
    print("to_extrapolate: ['item__rev']")
    result = dict(extrapolate_templates(templates, ["item__rev"]))
    for k, v in result.items():
        print(f"   {k!r:14} -> {v!r}")
    expected = {
        "item__rev": r"{show}/{kind:item}/{name:[^/]+}/{rev:r\d+}",
        "item__name": r"{show}/{kind:item}/{name:[^/]+}",
        "item__kind": "{show}/{kind:item}",
        "show": "{show}",
    }
    violated = result != expected
    print("expected      :", expected)

    # the same as a complete configuration
    tmp = tempfile.mkdtemp(prefix="spil_audit_")
    try:
        for name, text in (("spil_sid_conf.py", SID_CONF), ("spil_data_conf.py", DATA_CONF), ("code.py", CODE)):
            with open(os.path.join(tmp, name), "w") as f:
                f.write(text)
        env = dict(os.environ, PYTHONPATH=tmp + os.pathsep + LIB, HOME=tmp)
        p = subprocess.run([sys.executable, "-W", "ignore", os.path.join(tmp, "code.py")],
                           env=env, capture_output=True, text=True)
        print("complete configuration, import spil + Sid('macbeth/item/witch/r1'): exit code", p.returncode)
        print("\n".join(line for line in p.stdout.splitlines() if not line.startswith("INFO")))
        if p.returncode:
            print("   " + "\n   ".join(p.stderr.strip().splitlines()[-6:]))
            violated = True
    finally:
        shutil.rmtree(tmp, ignore_errors=True)

    print("VIOLATION" if violated else "ok")
    return 1 if violated else 0


if __name__ == "__main__":
    sys.exit(main())
