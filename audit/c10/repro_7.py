"""
C16 (low confidence) - "each carrying the Sid under 'sid' (encoded by the given sid_encode, omitted when
it returns None) together with that Sid's stored data".

WriteToPaths().update(sid, {'sid': 'bogus'}) is accepted. Afterwards
  get(search, sid_encode=lambda s: None)  -> the record HAS a 'sid' entry ('bogus'): not omitted,
  get(search)                             -> 'sid' is the Sid, the stored value 'bogus' is not part of the record.
Either the entry is not omitted, or the stored data is not returned.

Run: PYTHONPATH=/tmp/spilwt6/c10:/tmp/spilwt6/c10/spil_hamlet_conf /venv/bin/python repro_7.py
"""
import os
import shutil
import sys


def main():
    from spil import Sid, GetFromPaths, WriteToPaths
    from spil.conf import get_data_json_path
    from spil.util.log import setLevel
    setLevel(100)

    sid = Sid("hamlet/a/char/zzaudit7")
    path = sid.path()
    first_missing = path
    while not first_missing.parent.exists():
        first_missing = first_missing.parent
    WriteToPaths().create(sid)
    try:
        WriteToPaths().update(sid, {"sid": "bogus", "a": 1})
        g = GetFromPaths()
        with_none = list(g.get(str(sid), sid_encode=lambda s: None))
        default = list(g.get(str(sid)))
        print("written            : {'sid': 'bogus', 'a': 1}")
        print("get(sid_encode=lambda s: None) ->", with_none)
        print("get()                          ->", default)
        violated = "sid" in with_none[0]
    finally:
        sidecar = get_data_json_path(path)
        if sidecar.exists():
            os.remove(sidecar)
        shutil.rmtree(first_missing)
    print("VIOLATION" if violated else "ok")
    return 1 if violated else 0


if __name__ == "__main__":
    sys.exit(main())
