"""
C20 (with C05 / C07 / C11) - "path templates mirroring the Sid templates", "Nothing in the library
depends on the demo configuration's ... separators or value vocabulary".

The demo file names join the keys with '_' and have at most one free-valued key, all others being
closed lists. In a configuration whose file name repeats TWO free-valued keys
(path  .../{cat}/{thing}/{cat}<sep>{thing}.{fmt}):

 sep '.' : Sid('library/a/b/txt').path() raises resolva's ResolvaException for EVERY Sid of the type
           (search Sids included), so FindInPaths().find('library/*/*/txt') raises ResolvaException.
 sep '_' : Sid('library/a/b_c/txt').path() raises ResolvaException (value containing the separator),
           while 'library/a_b/c/txt' is fine.

C05 requires sid -> path -> sid to be the identity (and "None rather than an error" when there is no
path), C07/C11 that searches only ever raise SpilException / never fail.

Run: PYTHONPATH=/tmp/spilwt6/c10:/tmp/spilwt6/c10/spil_hamlet_conf /venv/bin/python repro_3.py
(the alternative configurations are written to a temporary directory and used in subprocesses)
"""
import os
import shutil
import subprocess
import sys
import tempfile

LIB = os.path.dirname(os.path.dirname(os.path.abspath(__file__)))

SID_CONF = r'''
sip = '/'
projects = []
sid_templates = {
    'lib__file':   '{lib:L}/{cat}/{thing}/{fmt:docs}',
    'lib__thing':  '{lib:L}/{cat}/{thing}',
}
to_extrapolate = ['lib__thing']
docs = ['txt', 'md', 'doc']
extension_alias = {'doc': ['txt', 'md']}
key_patterns = {
    '': {
        '{lib:L}': r'{lib:(library|\*|\>)}',
        '{fmt:docs}': r'{fmt:(' + '|'.join(docs) + r'|\*|\>)}',
    },
}
key_types = {'lib': ['lib', 'cat', 'thing', 'fmt']}
leaf_keys = {'lib': 'fmt', None: 'fmt'}
basetyped_search_narrowing = {'lib': 'lib=~library'}
typed_search_narrowing = {}
'''

FS_CONF = r'''
import os
from spil_sid_conf import key_patterns
root = os.environ['ALT_ROOT']
SEP = os.environ['ALT_SEP']
path_templates = {
    'lib__file':   root + '/{lib:L}/{cat}/{thing}/{cat}' + SEP + '{thing}.{fmt:docs}',
    'lib__thing':  root + '/{lib:L}/{cat}/{thing}',
    'lib__cat':    root + '/{lib:L}/{cat}',
    'lib__lib':    root + '/{lib:L}',
}
path_defaults = {}
sidkeys_to_extrakeys = {}
extrakeys_to_sidkeys = {}
path_mapping = {}
search_path_mapping = {}
'''

DATA_CONF = r'''
path_configs = {'local': 'spil_fs_conf'}
default_path_config = 'local'
def get_finder_for(search_sid, config=None):
    from spil import FindInPaths
    return FindInPaths()
def get_getter_for(sid, attribute=None, config=None):
    return None
path_data_suffix = '.data.json'
create_file_using_template = {}
create_file_using_touch = True
def get_data_json_path(sid_path):
    return sid_path.with_name('.' + sid_path.stem + path_data_suffix)
'''

CODE = r'''
import os, sys
from spil import Sid, FindInPaths, SpilException
from spil.sid.pathops.pathconfig import get_path_config
from spil.util.log import setLevel
setLevel(100)
sep = os.environ['ALT_SEP']
print("file name separator %r - path template: %s" % (sep, get_path_config('local').path_templates['lib__file'].replace(os.environ['ALT_ROOT'], '<root>')))
violated = False
for s in ['library/a/b/txt', 'library/a_b/c/txt', 'library/a/b_c/txt', 'library/*/*/txt']:
    sid = Sid(s)
    try:
        p = sid.path()
        back = Sid(path=p) if p else None
        print("  %-22s type %-10s path() -> %s ; back -> %r" % (s, sid.type, str(p).replace(os.environ['ALT_ROOT'], '<root>'), back))
        if not sid.is_search() and back != sid:
            violated = True
    except SpilException as e:
        print("  %-22s path() RAISED SpilException %s" % (s, e))
        violated = True
    except Exception as e:
        print("  %-22s type %-10s path() RAISED %s: %s" % (s, sid.type, type(e).__name__, e))
        violated = True
try:
    print("  FindInPaths().find('library/*/*/txt') ->", list(FindInPaths().find('library/*/*/txt')))
except SpilException as e:
    print("  FindInPaths().find('library/*/*/txt') RAISED SpilException", e)
except Exception as e:
    print("  FindInPaths().find('library/*/*/txt') RAISED %s: %s" % (type(e).__name__, e))
    violated = True
sys.exit(1 if violated else 0)
'''


def main():
    tmp = tempfile.mkdtemp(prefix="spil_audit_")
    result = 0
    try:
        for name, text in (("spil_sid_conf.py", SID_CONF), ("spil_fs_conf.py", FS_CONF),
                           ("spil_data_conf.py", DATA_CONF), ("code.py", CODE)):
            with open(os.path.join(tmp, name), "w") as f:
                f.write(text)
        for sep in (".", "_"):
            env = dict(os.environ, PYTHONPATH=tmp + os.pathsep + LIB, ALT_ROOT=os.path.join(tmp, "ROOT"),
                       ALT_SEP=sep, HOME=tmp)
            p = subprocess.run([sys.executable, "-W", "ignore", os.path.join(tmp, "code.py")],
                               env=env, capture_output=True, text=True)
            print("\n".join(line for line in p.stdout.splitlines() if not line.startswith("INFO")))
            if p.returncode not in (0, 1):
                print(p.stderr[-2000:])
            result = result or p.returncode
    finally:
        shutil.rmtree(tmp, ignore_errors=True)
    print("VIOLATION" if result else "ok")
    return 1 if result else 0


if __name__ == "__main__":
    sys.exit(main())
