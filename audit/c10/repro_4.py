"""
C20 (with C10 / C11) - "Under any configuration that follows the documented conventions (ordered
templates per basetype, a leaf key per basetype, mutually exclusive value patterns per level ...) the
... unfolding and list / file search properties above hold unchanged."

The demo tells its basetypes apart by a constant ('a' / 's'), which basetyped_search_narrowing writes
into every typed search. Here the two basetypes are told apart by mutually exclusive patterns at the
first level ('library' vs 'j<digits>'), which is all the conventions ask for, and a narrowing query
cannot express the pattern of 'job'.
The typed search 'job__file:*/*/*' is then a plain glob for FindInList and also catches the 3-segment
entries of the other basetype:

   FindInList(L).find('*/**')  returns 'library/a/b' (type lib__thing: not a leaf, not a job__file)
   FindInPaths().find('*/**')  (same entities on disk) does not.

C10: '**' results are "restricted to leaf types" / "every result is a typed Sid that matches the search";
C11: FindInPaths and FindInList over the same entities return the same set.

Run: PYTHONPATH=/tmp/spilwt6/c10:/tmp/spilwt6/c10/spil_hamlet_conf /venv/bin/python repro_4.py
(the alternative configuration is written to a temporary directory and used in a subprocess)
"""
import os
import shutil
import subprocess
import sys
import tempfile

LIB = os.path.dirname(os.path.dirname(os.path.abspath(__file__)))

SID_CONF = r'''
sip = '/'
projects = []
sid_templates = {
    'lib__file':   '{lib:L}/{cat}/{thing}/{fmt:docs}',
    'lib__thing':  '{lib:L}/{cat}/{thing}',
    'job__file':   '{job}/{ep}/{fmt:docs}',
    'job__ep':     '{job}/{ep}',
}
to_extrapolate = ['lib__thing', 'job__ep']
docs = ['txt', 'md', 'doc']
extension_alias = {'doc': ['txt', 'md']}
key_patterns = {
    '': {
        '{lib:L}': r'{lib:(library|\*|\>)}',
        '{job}': r'{job:(j\d+|\*|\>)}',
        '{ep}': r'{ep:(e\d+|\*|\>)}',
        '{fmt:docs}': r'{fmt:(' + '|'.join(docs) + r'|\*|\>)}',
    },
}
key_types = {
    'lib': ['lib', 'cat', 'thing', 'fmt'],
    'job': ['job', 'ep', 'fmt'],
}
leaf_keys = {'lib': 'fmt', 'job': 'fmt', None: 'fmt'}
basetyped_search_narrowing = {'lib': 'lib=~library'}
typed_search_narrowing = {}
'''

FS_CONF = r'''
import os
from spil_sid_conf import key_patterns
root = os.environ['ALT_ROOT']
path_templates = {
    'lib__file':   root + '/{lib:L}/{cat}/{thing}/{thing}.{fmt:docs}',
    'lib__thing':  root + '/{lib:L}/{cat}/{thing}',
    'lib__cat':    root + '/{lib:L}/{cat}',
    'lib__lib':    root + '/{lib:L}',
    'job__file':   root + '/jobs/{job}/{ep}/{job}_{ep}.{fmt:docs}',
    'job__ep':     root + '/jobs/{job}/{ep}',
    'job__job':    root + '/jobs/{job}',
}
path_defaults = {}
sidkeys_to_extrakeys = {}
extrakeys_to_sidkeys = {}
path_mapping = {}
search_path_mapping = {}
'''

DATA_CONF = r'''
path_configs = {'local': 'spil_fs_conf'}
default_path_config = 'local'
def get_finder_for(search_sid, config=None):
    from spil import FindInPaths
    return FindInPaths()
def get_getter_for(sid, attribute=None, config=None):
    return None
path_data_suffix = '.data.json'
create_file_using_template = {}
create_file_using_touch = True
def get_data_json_path(sid_path):
    return sid_path.with_name('.' + sid_path.stem + path_data_suffix)
'''

CODE = r'''
import sys
from spil import Sid, conf, FindInList, FindInPaths, WriteToPaths
from spil.sid.read.tools import unfold_search
from spil.sid.core.utils import extrapolate
from spil.util.log import setLevel
setLevel(100)

leaves = ['library/a/b/txt', 'library/x/y/md', 'j1/e1/txt', 'j2/e1/md']
for s in leaves:
    WriteToPaths().create(s)
L = sorted(set(extrapolate(leaves)))   # the leaves and all their ancestors, as on disk
print("entities:", L)
violated = False
for search in ['*/**', '*/*/**', '*/*/*']:
    in_list = sorted(str(x) for x in FindInList(L).find(search))
    in_paths = sorted(str(x) for x in FindInPaths().find(search))
    print("search %r -> unfolds to %s" % (search, unfold_search(search)))
    print("   FindInList : %s" % in_list)
    print("   FindInPaths: %s" % in_paths)
    if '**' in search:
        non_leaves = [s for s in in_list if not Sid(s).is_leaf()]
        print("   non-leaf results of the '**' search (FindInList): %s" % [(s, Sid(s).type) for s in non_leaves])
        if non_leaves:
            violated = True
    if in_list != in_paths:
        violated = True
print("VIOLATION" if violated else "ok")
sys.exit(1 if violated else 0)
'''


def main():
    tmp = tempfile.mkdtemp(prefix="spil_audit_")
    try:
        for name, text in (("spil_sid_conf.py", SID_CONF), ("spil_fs_conf.py", FS_CONF),
                           ("spil_data_conf.py", DATA_CONF), ("code.py", CODE)):
            with open(os.path.join(tmp, name), "w") as f:
                f.write(text)
        env = dict(os.environ, PYTHONPATH=tmp + os.pathsep + LIB, ALT_ROOT=os.path.join(tmp, "ROOT"), HOME=tmp)
        p = subprocess.run([sys.executable, "-W", "ignore", os.path.join(tmp, "code.py")],
                           env=env, capture_output=True, text=True)
        print("\n".join(line for line in p.stdout.splitlines() if not line.startswith("INFO")))
        if p.returncode not in (0, 1):
            print(p.stderr[-2000:])
        return p.returncode
    finally:
        shutil.rmtree(tmp, ignore_errors=True)


if __name__ == "__main__":
    sys.exit(main())
