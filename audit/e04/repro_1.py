"""
C11 - FindInList answers a typed search with entries of OTHER types; FindInPaths / FindInAll do not.

Same entities in a file tree (local + server) and in a list. The search
    'hamlet/a/char/ophelia/model/v001/w/ma?ext=*'
unfolds to exactly one typed search,  asset__file:hamlet/a/char/ophelia/model/v001/w/*  .
FindInPaths('local'), FindInPaths('server') and FindInAll() return the scene file only,
FindInList returns the scene file AND the movie AND the cache file.

Run: PYTHONPATH=/tmp/spilwt8/e04:/tmp/spilwt8/e04/spil_hamlet_conf /venv/bin/python repro_1.py
"""
import shutil
import sys
from pathlib import Path


def main():
    from spil import Sid, FindInList, FindInPaths, FindInAll, WriteToPaths
    from spil.sid.read.tools import unfold_search
    import spil_fs_conf

    root = Path(spil_fs_conf.project_root_path).parent.parent  # .../data/testing/SPIL_PROJECTS
    assert root.name == "SPIL_PROJECTS" and "testing" in root.parts, root
    if root.exists():
        shutil.rmtree(root)

    entities = [
        "hamlet/a/char/ophelia/model/v001/w/ma",   # asset__file
        "hamlet/a/char/ophelia/model/v001/w/mov",  # asset__movie_file
        "hamlet/a/char/ophelia/model/v001/w/abc",  # asset__cache_file
        "hamlet/s/sq010/sh0010/anim/v001/w/ma",    # shot__file
        "hamlet/s/sq010/sh0010/anim/v001/w/mov",   # shot__movie_file
    ]
    violated = False
    try:
        for config in ("local", "server"):
            writer = WriteToPaths(config)
            for e in entities:
                writer.create(e)

        # the corresponding list of Sids: the entities and their ancestors that have a path
        as_list = []
        for e in entities:
            sid = Sid(e)
            chain = [sid]
            while chain[-1].parent != chain[-1]:
                chain.append(chain[-1].parent)
            for s in reversed(chain):
                if s.path() and str(s) not in as_list:
                    as_list.append(str(s))
        print("entities (tree local + server, and list):", entities)

        finders = {
            "FindInList": FindInList(as_list),
            "FindInPaths(local)": FindInPaths("local"),
            "FindInPaths(server)": FindInPaths("server"),
            "FindInAll": FindInAll(),
        }
        searches = [
            "hamlet/a/char/ophelia/model/v001/w/ma?ext=*",  # typed search asset__file:.../w/*
            "hamlet/a/char/ophelia/model/v001/w?ext=*",     # same typed search, reached from the state
            "hamlet/a/**/ma?ext=*",                         # asset__file:hamlet/a/*/*/*/*/*/*
            "hamlet/s/sq010/sh0010/anim/v001/w/m*",         # only typable as shot__cache_node (no path): list answers with files
        ]
        for search in searches:
            print()
            print("search:", search)
            print("  unfold_search ->", [s.uri for s in unfold_search(search)])
            results = {}
            for name, finder in finders.items():
                results[name] = sorted(finder.find(search, as_sid=False))
                print(f"  {name:20} -> {results[name]}")
            if len(set(map(tuple, results.values()))) != 1:
                print("  VIOLATION: the Finders do not return the same set of Sids")
                violated = True
    finally:
        shutil.rmtree(root, ignore_errors=True)

    return 1 if violated else 0


if __name__ == "__main__":
    sys.exit(main())
