"""
C01 - an untyped string that ends in a bare '?' is not kept verbatim: the '?' is silently dropped.
Run: PYTHONPATH=/tmp/spilwt7/d01:/tmp/spilwt7/d01/spil_hamlet_conf /venv/bin/python repro_1.py
"""
import logging
import sys


def main():
    logging.disable(logging.CRITICAL)
    from spil import Sid

    inputs = ["foo?", "bla/bla?", "?", "x:y?", "nope:hamlet?", "hamlet/a/what?"]
    violated = False
    for text in inputs:
        sid = Sid(text)
        print(f"Sid({text!r}) -> string={sid.string!r} type={sid.type!r} fields={sid.fields} bool={bool(sid)} len={len(sid)}")
        if not sid.type and sid.string != text:
            print(f"   VIOLATION: untyped Sid does not keep its string verbatim ({text!r} became {sid.string!r})")
            violated = True

    # consequence: two different untypable strings give equal Sids
    a, b = Sid("foo?"), Sid("foo")
    print(f"Sid('foo?') == Sid('foo') -> {a == b}")
    if a == b:
        violated = True

    # control: any other trailing query text on an untyped string IS kept verbatim
    for text in ["foo?&", "foo??", "foo?bar"]:
        print(f"control Sid({text!r}).string -> {Sid(text).string!r}")

    return 1 if violated else 0


if __name__ == "__main__":
    sys.exit(main())
