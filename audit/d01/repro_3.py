"""
C04 (low confidence, see findings.md) - a query that repeats a key, the last occurrence being '~'-prefixed,
vanishes without a trace: the plain (non optional) value is neither applied nor kept in the string.
Run: PYTHONPATH=/tmp/spilwt7/d01:/tmp/spilwt7/d01/spil_hamlet_conf /venv/bin/python repro_3.py
"""
import logging
import sys


def main():
    logging.disable(logging.CRITICAL)
    from spil import Sid

    violated = False
    cases = [
        # input, acceptable strings (applied in sequence / '~' judged against the old fields / refused and kept)
        ("hamlet/a/char?asset=vdb&asset=~prop", {"hamlet/a/char/prop", "hamlet/a/char/vdb", "hamlet/a/char?asset=vdb&asset=~prop"}),
        ("hamlet?foo=model&foo=~x", {"hamlet?foo=model&foo=~x"}),
    ]
    for text, acceptable in cases:
        sid = Sid(text)
        print(f"Sid({text!r}) -> {sid!r} fields={sid.fields}")
        if sid.string not in acceptable:
            print(f"   VIOLATION: the value given without '~' is neither in the fields nor visible in the string; acceptable: {sorted(acceptable)}")
            violated = True
    same = Sid("hamlet/a/char").get_with(query="asset=vdb&asset=~prop")
    print(f"Sid('hamlet/a/char').get_with(query='asset=vdb&asset=~prop') -> {same!r}")
    print(f"control Sid('hamlet/a/char?asset=vdb') -> {Sid('hamlet/a/char?asset=vdb')!r}")
    print(f"control Sid('hamlet?foo=model')        -> {Sid('hamlet?foo=model')!r}")
    return 1 if violated else 0


if __name__ == "__main__":
    sys.exit(main())
