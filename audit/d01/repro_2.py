"""
C01 (low confidence, see findings.md) - Sid(<untyped Sid object>) forgets the string, and even falls through
to the next factory argument.
Run: PYTHONPATH=/tmp/spilwt7/d01:/tmp/spilwt7/d01/spil_hamlet_conf /venv/bin/python repro_2.py
"""
import logging
import sys


def main():
    logging.disable(logging.CRITICAL)
    from spil import Sid

    violated = False
    untyped = Sid("bla/bla")
    print(f"untyped = Sid('bla/bla') -> {untyped!r}")

    again = Sid(untyped)
    print(f"Sid(untyped)            -> {again!r}   (required: an untyped Sid that keeps 'bla/bla')")
    if again.string != "bla/bla":
        violated = True

    other = Sid(untyped, query="project=hamlet")
    print(f"Sid(untyped, query='project=hamlet') -> {other!r}   (documented: the first argument has priority)")
    if other.string != "bla/bla":
        violated = True

    typed = Sid("hamlet/a")
    print(f"control Sid(Sid('hamlet/a')) -> {Sid(typed)!r}")
    print(f"control Sid(str(untyped))    -> {Sid(str(untyped))!r}")
    return 1 if violated else 0


if __name__ == "__main__":
    sys.exit(main())
