"""
C01: an empty 'type:' prefix (":hamlet") is silently dropped: the Sid is typed and its string is not the input.

Run: PYTHONPATH=/tmp/spilwt6/c01:/tmp/spilwt6/c01/spil_hamlet_conf /venv/bin/python repro_1.py
Exits 1 when the violation is observed, 0 otherwise.
"""
import sys
import logging


def main():
    logging.disable(logging.CRITICAL)
    from spil import Sid
    from spil.conf import sid_templates

    assert "" not in sid_templates  # there is no template named ""

    violated = False
    for inp in [":hamlet", ":hamlet/a", ":hamlet/a/char/ophelia", ":*", ":hamlet?type=a"]:
        sid = Sid(inp)
        print(f"Sid({inp!r}) -> {sid!r}  type={sid.type!r} fields={sid.fields} string={sid.string!r} "
              f"len={len(sid)} bool={bool(sid)}")
        # no template is called "" (forced reading), and no template accepts the segment ":hamlet" (plain reading):
        # the statement requires an untyped Sid that keeps the input verbatim.
        ok = (not sid) and sid.type == "" and sid.fields == {} and len(sid) == 0 and sid.string == inp
        if not ok:
            violated = True

    # for comparison: any other unknown prefix is handled as the statement says
    ref = Sid("x:hamlet")
    print(f"Sid('x:hamlet') -> {ref!r} (untyped, verbatim: {ref.string == 'x:hamlet' and not ref})")

    # consequence: two different input strings are one Sid
    print("Sid(':hamlet') == Sid('hamlet') :", Sid(":hamlet") == Sid("hamlet"))

    print("VIOLATION" if violated else "ok")
    return 1 if violated else 0


if __name__ == "__main__":
    sys.exit(main())
