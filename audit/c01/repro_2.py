"""
C01: a template with FEWER placeholders than the string has segments types the string,
as soon as one placeholder pattern is able to match a "/" (eg. "[^_]+", "name without underscore").

The script writes an alternative spil_sid_conf.py into a temporary directory and runs a subprocess with it.

Run: PYTHONPATH=/tmp/spilwt6/c01:/tmp/spilwt6/c01/spil_hamlet_conf /venv/bin/python repro_2.py
Exits 1 when the violation is observed, 0 otherwise.
"""
import os
import shutil
import subprocess
import sys
import tempfile
import textwrap

ROOT = os.path.dirname(os.path.dirname(os.path.abspath(__file__)))  # the worktree

SID_CONF = r'''
sip = '/'
projects = ['hamlet']
sid_templates = {
    'asset__file':  '{project}/{assettype}/{asset}/{task}/{version}/{ext}',
    'project': '{project}',
}
to_extrapolate = ['asset__file']
key_patterns = {
    '': {
        '{project}': r'{project:(hamlet|\*|\>)}',
        '{asset}':   r'{asset:([^_]+)}',               # an asset name has no underscore
        '{version}': r'{version:(v\d\d\d|\*|\>)}',
        '{ext}':     r'{ext:(ma|mb|\*|\>)}',
    },
}
key_types = {'asset': ['project', 'assettype', 'asset', 'task', 'version', 'ext'], 'project': ['project']}
leaf_keys = {'asset': 'ext', 'project': 'ext', None: 'ext'}
extension_alias = {}
basetyped_search_narrowing = {}
typed_search_narrowing = {}
asset_types = ['char']
'''

CODE = r'''
import logging, re, sys
logging.disable(logging.CRITICAL)
from spil import Sid
from spil.conf import sid_templates

PH = re.compile(r'{(?P<placeholder>.+?)(:(?P<expression>(\\}|.)+?))?}')

def expected(string):
    """The typing rule of C01, segment by segment."""
    segments = string.split('/')
    for name, template in sid_templates.items():
        parts = template.split('/')
        if len(parts) != len(segments):
            continue
        fields = {}
        for part, segment in zip(parts, segments):
            m = PH.fullmatch(part)
            if not re.fullmatch(m.group('expression') or '[^/]*', segment):
                break
            fields[m.group('placeholder')] = segment
        else:
            return name, fields
    return '', {}

print("templates after extrapolation and pattern replacing:")
for name, template in sid_templates.items():
    print("   ", name, template)

violated = False
for string in ['hamlet/char/ophelia/model',            # control
               'hamlet/char/ophelia/model/v001',       # control
               'hamlet/char/ophelia/model/v0011',      # 5 segments, bad version
               'hamlet/char/ophelia/model/v001/mov',   # 6 segments, bad ext
               'hamlet/char/a/b/c/d/e/f/g']:           # 9 segments, the longest template has 6 placeholders
    sid = Sid(string)
    exp = expected(string)
    got = (sid.type, sid.fields)
    flag = "" if got == exp else "   <-- VIOLATION"
    print(f"Sid({string!r}): segments={len(string.split('/'))} -> type={sid.type!r} len={len(sid)} fields={sid.fields}")
    print(f"      required by C01: type={exp[0]!r} fields={exp[1]}{flag}")
    if got != exp:
        violated = True
sys.exit(1 if violated else 0)
'''


def main():
    tmp = tempfile.mkdtemp(prefix="spil_c01_conf_")
    try:
        with open(os.path.join(tmp, "spil_sid_conf.py"), "w") as f:
            f.write(textwrap.dedent(SID_CONF))
        # data / path configuration: the demo ones, unchanged (only needed so that "import spil" works)
        for name in ("spil_data_conf.py", "spil_fs_conf.py", "spil_fs_server_conf.py"):
            shutil.copy(os.path.join(ROOT, "spil_hamlet_conf", name), tmp)
        with open(os.path.join(tmp, "run.py"), "w") as f:
            f.write(textwrap.dedent(CODE))
        env = dict(os.environ, PYTHONPATH=tmp + os.pathsep + ROOT, PYTHONWARNINGS="ignore")
        p = subprocess.run([sys.executable, os.path.join(tmp, "run.py")], env=env, capture_output=True, text=True)
        print(p.stdout)
        if p.returncode not in (0, 1):
            print(p.stderr[-3000:])
            print("subprocess failed unexpectedly")
            return 0
        print("VIOLATION" if p.returncode == 1 else "ok")
        return p.returncode
    finally:
        shutil.rmtree(tmp, ignore_errors=True)


if __name__ == "__main__":
    sys.exit(main())
