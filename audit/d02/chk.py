import logging, random, itertools
from spil import Sid, conf
from spil.conf import sid_templates
import string as S

def canon(s):
    # canonical rendering via template order
    import string
    tpl = sid_templates[s.type]
    keys = [t[1] for t in string.Formatter().parse(tpl) if t[1]]
    # keys may have ':' spec separated already
    return '/'.join(s.fields[k] for k in keys), keys

def check(s, label=''):
    problems = []
    if not s: return problems
    def same(o, how):
        try:
            ok = (o == s and o.type == s.type and o.string == s.string and o.fields == s.fields and list(o.fields) == list(s.fields) and hash(o)==hash(s))
        except Exception as e:
            problems.append((how, 'EXC', repr(e))); return
        if not ok:
            problems.append((how, repr(o), o.type, dict(o.fields)))
    for how, f in [
        ('uri', lambda: Sid(s.uri)),
        ('fields', lambda: Sid(fields=s.fields)),
        ('fields_rev', lambda: Sid(fields=dict(reversed(list(s.fields.items()))))),
        ('query', lambda: Sid(query=s.as_query())),
        ('query2', lambda: Sid('?' + s.as_query())),
        ('repr', lambda: eval(repr(s))),
        ('copy', lambda: s.copy()),
        ('sid', lambda: Sid(s)),
    ]:
        try:
            o = f()
        except Exception as e:
            problems.append((how, 'EXC', repr(e))); continue
        same(o, how)
    try:
        c, keys = canon(s)
        if c != s.string: problems.append(('canon', c, s.string))
        if keys != list(s.fields): problems.append(('order', keys, list(s.fields)))
    except Exception as e:
        problems.append(('canon', 'EXC', repr(e)))
    return problems

if __name__ == '__main__':
    import sys
    vals = ['', 'x', 'é', "o'n", 'o"x', 'a\\b', 'x\ny', 'a=b', 'a;b', '<', '.', '..', '*', 'a*', '{x}', '{', '}', '$', '^', '(', '|', 'x'*300, '\t', '\x00', ' ', 'ǅ', 'ß', '-', '_', '0', 'None', '\r', '[', '!', '@', '`', '//'[:1]]
    strings = []
    for v in vals:
        strings += ['hamlet/a/char/%s' % v, 'hamlet/a/char/%s/model' % v, 'hamlet/a/char/%s/model/v001/w/ma' % v, 'hamlet/s/sq001/sh0001/fx/v001/w/%s/abc' % v, 'hamlet/s/sq001/sh0001/fx/v001/w/%s' % v]
    for t in strings:
        s = Sid(t)
        p = check(s)
        if p:
            print(repr(t), repr(s))
            for x in p: print('    ', x)
