"""
C02 - a typed Sid whose value contains a TAB, CR or LF is not rebuilt by its own query string.

Sid(query=sid.as_query()) silently drops the character (urllib's urlsplit removes \\t \\r \\n anywhere
in the text before parse_qsl sees it), so the rebuilt Sid is ANOTHER typed Sid (other fields, other string).
(The known "blanks" defect is the space being stripped by query_helper.to_string; this is a different
code path: to_string keeps the tab, to_dict -> urlsplit loses it.)
"""
import sys
from spil import Sid


def main():
    violations = 0
    for string in ("hamlet/a/char/x\ty", "hamlet/a/char/x\ny/model", "hamlet/s/sq001/sh0001/fx/v001/w/n\r1/abc"):
        sid = Sid(string)
        query = sid.as_query()
        back = Sid(query=query)
        print("input      :", repr(string))
        print("  sid      :", repr(sid), dict(sid.fields))
        print("  as_query :", repr(query))
        print("  rebuilt  :", repr(back), dict(back.fields))
        # the other forms of C02 do round-trip
        assert Sid(sid.uri) == sid and Sid(fields=sid.fields) == sid and eval(repr(sid)) == sid and sid.copy() == sid
        if sid and not (back == sid and back.type == sid.type and back.string == sid.string and back.fields == sid.fields):
            print("  VIOLATION: Sid(query=sid.as_query()) != sid")
            violations += 1
    return 1 if violations else 0


if __name__ == "__main__":
    sys.exit(main())
