"""
C09 - '>' at the "type" position is silently overwritten by the basetype narrowing:
Sid('hamlet/s').get_last('type') answers 'hamlet/a' (the smallest entry), and find('hamlet/>') returns two Sids for one group.

Run: PYTHONPATH=/tmp/spilwt6/c06:/tmp/spilwt6/c06/spil_hamlet_conf /venv/bin/python repro_3.py
"""
import sys


def main():
    from spil import Sid, FindInAll, FindInList

    violated = False

    existing = list(FindInAll().find("hamlet/*", as_sid=False))
    print("FindInAll().find('hamlet/*')          :", existing)

    for string in ("hamlet/s", "hamlet/a"):
        got = Sid(string).get_last("type")
        print(f"Sid({string!r}).get_last('type')       : {got!r}   required Sid('shot:hamlet/s')")
        if str(got) != "hamlet/s":
            violated = True
    got = Sid("hamlet/s").get_last()
    print(f"Sid('hamlet/s').get_last()             : {got!r}   required Sid('shot:hamlet/s')")

    L = ["hamlet/a", "hamlet/s", "hamlet/a/char", "hamlet/a/prop", "hamlet/s/sq010", "hamlet/s/sq020"]
    for search, required in (("hamlet/>", ["hamlet/s"]), ("hamlet/>/*", ["hamlet/s/sq020"])):
        for name, finder in (("FindInList", FindInList(L)), ("FindInAll ", FindInAll())):
            if name.startswith("FindInAll") and search != "hamlet/>":
                continue  # needs a file tree
            got = list(finder.find(search, as_sid=False))
            print(f"{name}.find({search!r}) : {got}   required {required}")
            if got != required:
                violated = True

    # for comparison, the same operator one level deeper or higher works
    print("FindInList.find('hamlet/a/>')         :", list(FindInList(L).find("hamlet/a/>", as_sid=False)))
    print("FindInList.find('>/*')                :", list(FindInList(L).find(">/*", as_sid=False)))
    return 1 if violated else 0


if __name__ == "__main__":
    sys.exit(main())
