"""
C18 - get_new('version') is not "the successor of the last existing version" when no sibling version exists:
it returns the Sid's OWN version + 1 (a gap), or the empty Sid for v999, although no version exists at all.

Run: PYTHONPATH=/tmp/spilwt6/c06:/tmp/spilwt6/c06/spil_hamlet_conf /venv/bin/python repro_1.py
"""
import shutil
import sys
from contextlib import contextmanager
from pathlib import Path

@contextmanager
def demo_tree(*sids):
    """Creates the given entities in the demo file tree (under spil_hamlet_conf/data/testing) and removes them again."""
    from spil import Sid, WriteToPaths, conf

    root = Path(conf.default_sid_conf_data_path) / "testing" / "SPIL_PROJECTS"
    pre_existing = root.exists()
    created = []
    try:
        for s in sids:
            p = Sid(s).path()
            if not p.exists():
                WriteToPaths().create(s)
                created.append(p)
        yield root
    finally:
        if not pre_existing:
            shutil.rmtree(root, ignore_errors=True)
        else:
            for p in created:
                if p.is_dir():
                    shutil.rmtree(p, ignore_errors=True)
                elif p.exists():
                    p.unlink()



def main():
    from spil import Sid, FindInAll

    violated = False
    # "model" has two versions, "rig" has no version at all.
    with demo_tree(
        "hamlet/a/char/ophelia/model/v001/w/ma",
        "hamlet/a/char/ophelia/model/v002/w/ma",
        "hamlet/a/char/ophelia/rig",
    ):
        print("existing rig versions :", list(FindInAll().find("hamlet/a/char/ophelia/rig/*", as_sid=False)))
        print("existing model mb     :", list(FindInAll().find("hamlet/a/char/ophelia/model/*/w/mb", as_sid=False)))
        cases = [
            # (input sid, required get_new)
            ("hamlet/a/char/ophelia/rig", "hamlet/a/char/ophelia/rig/v001"),
            ("hamlet/a/char/ophelia/rig/*", "hamlet/a/char/ophelia/rig/v001"),
            ("hamlet/a/char/ophelia/rig/v001", "hamlet/a/char/ophelia/rig/v001"),
            ("hamlet/a/char/ophelia/rig/v005", "hamlet/a/char/ophelia/rig/v001"),
            ("hamlet/a/char/ophelia/rig/v007", "hamlet/a/char/ophelia/rig/v001"),
            ("hamlet/a/char/ophelia/rig/v999", "hamlet/a/char/ophelia/rig/v001"),
            ("hamlet/a/char/ophelia/rig/v005/w/ma", "hamlet/a/char/ophelia/rig/v001/w/ma"),
            ("hamlet/a/char/ophelia/model/v002/w/mb", "hamlet/a/char/ophelia/model/v001/w/mb"),
            ("hamlet/a/char/ophelia/model/v999/w/mb", "hamlet/a/char/ophelia/model/v001/w/mb"),
        ]
        for string, required in cases:
            sid = Sid(string)
            last = sid.get_last("version")
            new = sid.get_new("version")
            ok = str(new) == required
            violated = violated or not ok
            print(
                f"Sid({string!r}): get_last('version') = {str(last)!r}  get_new('version') = {str(new)!r}"
                f"   required {required!r}   {'ok' if ok else 'VIOLATION'}"
            )
    return 1 if violated else 0


if __name__ == "__main__":
    sys.exit(main())
