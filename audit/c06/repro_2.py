"""
C18 - get_new('version') of a state-level Sid ("project/a/assettype/asset/task/version/state") returns a Sid
that already exists() according to the library, although its version does not exist.

Run: PYTHONPATH=/tmp/spilwt6/c06:/tmp/spilwt6/c06/spil_hamlet_conf /venv/bin/python repro_2.py
"""
import shutil
import sys
from contextlib import contextmanager
from pathlib import Path

@contextmanager
def demo_tree(*sids):
    """Creates the given entities in the demo file tree (under spil_hamlet_conf/data/testing) and removes them again."""
    from spil import Sid, WriteToPaths, conf

    root = Path(conf.default_sid_conf_data_path) / "testing" / "SPIL_PROJECTS"
    pre_existing = root.exists()
    created = []
    try:
        for s in sids:
            p = Sid(s).path()
            if not p.exists():
                WriteToPaths().create(s)
                created.append(p)
        yield root
    finally:
        if not pre_existing:
            shutil.rmtree(root, ignore_errors=True)
        else:
            for p in created:
                if p.is_dir():
                    shutil.rmtree(p, ignore_errors=True)
                elif p.exists():
                    p.unlink()



def main():
    from spil import Sid, FindInAll

    violated = False
    with demo_tree(
        "hamlet/a/char/ophelia/model/v001/w/ma",
        "hamlet/a/char/ophelia/model/v002/w/ma",
        "hamlet/s/sq010/sh0010/anim/v001/p/ma",
    ):
        for string in (
            "hamlet/a/char/ophelia/model/v001/w",
            "hamlet/a/char/ophelia/model/*/w",
            "hamlet/a/char/ophelia/model/>/p",
            "hamlet/s/sq010/sh0010/anim/v001/p",
        ):
            sid = Sid(string)
            print(f"Sid({string!r})")
            print("   existing versions        :", list(FindInAll().find(sid.get_as("task") / "*", as_sid=False)))
            print("   get_last('version')      :", repr(sid.get_last("version")))
            new = sid.get_new("version")
            print("   get_new('version')       :", repr(new))
            exists = new.exists()
            print("   get_new(..).exists()     :", exists, "  (FindInAll().exists:", FindInAll().exists(new), ")")
            print("   get_new(..).parent.exists():", new.parent.exists())
            if new and exists:
                print("   VIOLATION: the Sid returned by get_new('version') exists already")
                violated = True
    return 1 if violated else 0


if __name__ == "__main__":
    sys.exit(main())
