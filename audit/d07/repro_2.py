"""
C12 (C08/C11) - FindInList over a list of Sid objects: find / find_one / exists raise TypeError
as soon as the search gets to compare an entry.

run: PYTHONPATH=/tmp/spilwt7/d07:/tmp/spilwt7/d07/spil_hamlet_conf /venv/bin/python repro_2.py
"""
import sys


def main():
    from spil import Sid, FindInList

    strings = ["hamlet/a/char/ophelia", "hamlet/a/char/claudius", "hamlet/a/prop/dagger"]
    sids = [Sid(s) for s in strings]
    violated = False

    reference = FindInList(strings)
    finder = FindInList(sids)
    print("L =", sids)
    for search in ["hamlet/a/char/*", "hamlet/a/char/ophelia", Sid("hamlet/a/char/ophelia")]:
        print("search:", repr(search))
        print("   list of strings: find ->", list(reference.find(search)), " exists ->", reference.exists(search))
        for name, call in (
            ("find", lambda: list(finder.find(search))),
            ("find_one", lambda: finder.find_one(search)),
            ("exists", lambda: finder.exists(search)),
        ):
            try:
                print("   list of Sids   : %s ->" % name, call())
            except Exception as e:  # noqa
                print("   list of Sids   : %s raises %s: %s" % (name, type(e).__name__, e))
                violated = True

    # the same list is accepted when it is extrapolated (entries are converted with str())
    print("do_extrapolate=True:", list(FindInList(sids, do_extrapolate=True).find("hamlet/a/char/*")))

    print("violation observed" if violated else "no violation")
    return 1 if violated else 0


if __name__ == "__main__":
    sys.exit(main())
