"""
C16 - a stored attribute named 'sid' is returned under 'sid' although sid_encode returns None
(and is silently replaced by the encoded Sid otherwise).

run: PYTHONPATH=/tmp/spilwt7/d07:/tmp/spilwt7/d07/spil_hamlet_conf /venv/bin/python repro_1.py
"""
import shutil
import sys
from pathlib import Path


def main():
    from spil import Sid, FindInPaths, GetFromPaths, GetFromAll, WriteToPaths
    import spil_fs_conf

    root = Path(spil_fs_conf.project_root_path).parent.parent  # .../data/testing/SPIL_PROJECTS
    existed = root.exists()
    violated = False
    try:
        writer = WriteToPaths()
        target = "hamlet/a/char/auditd07/model/v001"
        other = "hamlet/a/char/auditd07/model/v002"
        writer.create(target)
        writer.create(other)
        # "stored data" of the entity: a perfectly legal json attribute that happens to be called "sid"
        writer.update(target, {"sid": "stored-value", "comment": "hello"})

        search = "hamlet/a/char/auditd07/model/*"
        found = [s.uri for s in FindInPaths().find(search)]
        print("FindInPaths().find(%r) ->" % search, found)

        for name, getter in (("GetFromPaths", GetFromPaths()), ("GetFromAll", GetFromAll())):
            records = list(getter.get(search, sid_encode=lambda s: None))
            print("%s().get(%r, sid_encode=lambda s: None) ->" % (name, search), records)
            for record in records:
                if "sid" in record:
                    print("   VIOLATION: sid_encode returned None, the record still has a 'sid' entry:", record)
                    violated = True

            record = getter.get_data(target, sid_encode=lambda s: None)
            print("%s().get_data(%r, sid_encode=lambda s: None) ->" % (name, target), record)
            if "sid" in record:
                violated = True

            # the other way round: with an encoder, the stored value can never be read back
            record = getter.get_one(target, attributes=["sid", "comment"])
            print("%s().get_one(%r, attributes=['sid', 'comment']) ->" % (name, target), record)
    finally:
        if existed:
            shutil.rmtree(root / "LOCAL" / "PROJECTS" / "HAMLET" / "PROD" / "ASSETS" / "char" / "auditd07", ignore_errors=True)
        else:
            shutil.rmtree(root, ignore_errors=True)

    print("violation observed" if violated else "no violation")
    return 1 if violated else 0


if __name__ == "__main__":
    sys.exit(main())
