#!/usr/bin/env python3
"""Rewrites the catches table of DESIGN.md section 9 from seeded/*/result.json."""
import glob
import json
import os
import re

HERE = os.path.dirname(os.path.dirname(os.path.abspath(__file__)))
rows = []
for d in sorted(glob.glob(os.path.join(HERE, "seeded", "*"))):
    if not os.path.isdir(d):
        continue
    name = os.path.basename(d)
    meta = json.load(open(os.path.join(d, "meta.json"))) if os.path.exists(os.path.join(d, "meta.json")) else {}
    res = json.load(open(os.path.join(d, "result.json"))) if os.path.exists(os.path.join(d, "result.json")) else None
    prop = meta.get("property", "?")
    if res is None:
        caught, ran = "(not run)", ""
    else:
        caught = ", ".join(res.get("caught_by", [])) or "-"
        ran = "%d checks, %s" % (len(res.get("results", {})), res.get("tier"))
    what = (meta.get("what") or meta.get("needs_to_manifest") or "").replace("\n", " ").replace("|", "/")[:110]
    rows.append("| %s | %s | %s | %s | %s |" % (name, prop, caught, ran, what))
table = "| seeded change | property | caught by (quick) | run | summary |\n|---|---|---|---|---|\n" + "\n".join(rows)
p = os.path.join(HERE, "DESIGN.md")
s = open(p).read()
s = re.sub(r"<!-- CATCHES-TABLE-BEGIN -->.*<!-- CATCHES-TABLE-END -->", "<!-- CATCHES-TABLE-BEGIN -->\n" + table + "\n<!-- CATCHES-TABLE-END -->", s, flags=re.S)
open(p, "w").write(s)
print("rows:", len(rows))
