#!/usr/bin/env python3
"""Rewrites the catches table of DESIGN.md section 9 from seeded/*/result.json."""
import glob
import json
import os
import re

HERE = os.path.dirname(os.path.dirname(os.path.abspath(__file__)))
rows = []
for d in sorted(glob.glob(os.path.join(HERE, "seeded", "*"))):
    if not os.path.isdir(d):
        continue
    name = os.path.basename(d)
    meta = json.load(open(os.path.join(d, "meta.json"))) if os.path.exists(os.path.join(d, "meta.json")) else {}
    res = json.load(open(os.path.join(d, "result.json"))) if os.path.exists(os.path.join(d, "result.json")) else None
    prop = meta.get("property", "?")
    if meta.get("neutralised"):
        caught, ran = "(neutralised by a later fix)", ""
    elif res is None:
        caught, ran = "(not run)", ""
    else:
        caught = ", ".join(res.get("caught_by", [])) or ("- (not judged: see meta.json)" if meta.get("not_judged") else "-")
        ran = "%d checks, %s" % (len(res.get("results", {})), res.get("tier"))
    title = ""
    if os.path.exists(os.path.join(d, "notes.md")):
        lines = [l.strip() for l in open(os.path.join(d, "notes.md")).read().splitlines()]
        title = next((l.lstrip("# ").strip() for l in lines if l.startswith("#")), "")
        if len(title) < 30 or title.lower().startswith("what was changed"):
            title = " ".join(l for l in lines if l and not l.startswith("#") and not l.startswith("property:"))
    what = (title or meta.get("what") or meta.get("needs_to_manifest") or "").replace("\n", " ").replace("|", "/")[:110]
    rows.append("| %s | %s | %s | %s | %s |" % (name, prop, caught, ran, what))
table = "| seeded change | property | caught by (quick) | run | summary |\n|---|---|---|---|---|\n" + "\n".join(rows)
p = os.path.join(HERE, "DESIGN.md")
s = open(p).read()
a = s.index("<!-- CATCHES-TABLE-BEGIN -->")
b = s.index("<!-- CATCHES-TABLE-END -->")
s = s[:a] + "<!-- CATCHES-TABLE-BEGIN -->\n" + table + "\n" + s[b:]
open(p, "w").write(s)
print("rows:", len(rows))
