#!/venv/bin/python
"""mutate.py [--budget-min N] [--seed S] [--max M] : mechanical (AST) mutants of the files the properties are anchored in.

For each sampled mutant: written into a scratch copy of /repo's working tree (nothing touches /repo), the library must still
import and the repository's own test suite must give its baseline result (46 passed / 1 failed) - otherwise the mutant is "killed by
the tests" and not our business; then the registered quick checks of the properties anchored in that file run against the scratch copy
(VERIF_REPO), the most likely ones first, until one reports a violation; if none does, ALL 20 run. Results: mutation/results.jsonl
(one line per mutant), mutation/survivors/<id>.diff for mutants no check caught (to be reviewed by hand: equivalent, or a gap).
"""
import argparse
import ast
import copy
import json
import os
import random
import shutil
import subprocess
import sys
import tempfile
import time

HERE = os.path.dirname(os.path.dirname(os.path.abspath(__file__)))
OUT = os.path.join(HERE, "mutation")
ALL = ["C%02d" % i for i in range(1, 21)]


def anchored_files():
    m = {}
    for l in open(os.path.join(HERE, "properties.jsonl")):
        d = json.loads(l)
        for f in d["anchors"]["files"]:
            m.setdefault(f, []).append(d["id"])
    extra = {"spil_hamlet_conf/hamlet_plugins/next_get.py": ["C18"], "spil/sid/read/util.py": ["C12"]}
    for f, ps in extra.items():
        m.setdefault(f, ps)
    return {f: ps for f, ps in m.items() if os.path.isfile(os.path.join("/repo", f)) and not f.endswith("_conf.py") or f.endswith("spil_data_conf.py")}


CMP = {ast.Eq: ast.NotEq, ast.NotEq: ast.Eq, ast.Lt: ast.LtE, ast.LtE: ast.Lt, ast.Gt: ast.GtE, ast.GtE: ast.Gt,
       ast.In: ast.NotIn, ast.NotIn: ast.In, ast.Is: ast.IsNot, ast.IsNot: ast.Is}


class Sites(ast.NodeVisitor):
    """Collects (kind, node id path) mutation sites; docstrings and debug / warning calls are left alone."""

    def __init__(self):
        self.sites = []
        self.depth_fn = 0

    def visit_FunctionDef(self, node):
        self.depth_fn += 1
        self.generic_visit(node)
        self.depth_fn -= 1

    visit_AsyncFunctionDef = visit_FunctionDef

    def visit_Expr(self, node):
        if isinstance(node.value, ast.Constant) and isinstance(node.value.value, str):
            return      # docstring
        if isinstance(node.value, ast.Call) and getattr(node.value.func, "id", getattr(node.value.func, "attr", "")) in (
                "debug", "info", "warning", "warn", "error", "print", "pprint"):
            return
        self.generic_visit(node)

    def visit_Compare(self, node):
        for i, op in enumerate(node.ops):
            if type(op) in CMP:
                self.sites.append(("cmp", node, i))
        self.generic_visit(node)

    def visit_BoolOp(self, node):
        self.sites.append(("boolop", node, None))
        self.generic_visit(node)

    def visit_UnaryOp(self, node):
        if isinstance(node.op, ast.Not):
            self.sites.append(("not", node, None))
        self.generic_visit(node)

    def visit_Constant(self, node):
        if isinstance(node.value, bool):
            self.sites.append(("bool", node, None))
        elif isinstance(node.value, int) and -2 <= node.value <= 3:
            self.sites.append(("int", node, None))

    def visit_If(self, node):
        if isinstance(node.test, ast.Compare) and getattr(node.test.left, "id", "") == "__name__":
            return      # the "if __name__ == '__main__'" demo blocks are not library behaviour
        self.sites.append(("if_true", node, None))
        self.sites.append(("if_false", node, None))
        self.generic_visit(node)

    def visit_Continue(self, node):
        self.sites.append(("continue", node, None))

    def visit_Return(self, node):
        if self.depth_fn and node.value is not None and not (isinstance(node.value, ast.Constant) and node.value.value is None):
            self.sites.append(("return_none", node, None))
        self.generic_visit(node)

    def visit_Slice(self, node):
        if node.lower is not None or node.upper is not None:
            self.sites.append(("slice", node, None))
        self.generic_visit(node)

    def visit_Call(self, node):
        if len(node.args) == 2 and not node.keywords:
            self.sites.append(("swap_args", node, None))
        self.generic_visit(node)


def apply(kind, node, idx):
    if kind == "cmp":
        node.ops[idx] = CMP[type(node.ops[idx])]()
    elif kind == "boolop":
        node.op = ast.Or() if isinstance(node.op, ast.And) else ast.And()
    elif kind == "bool":
        node.value = not node.value
    elif kind == "int":
        node.value = node.value + 1
    elif kind == "if_true":
        node.test = ast.Constant(value=True)
    elif kind == "if_false":
        node.test = ast.Constant(value=False)
    elif kind == "slice":
        if node.lower is not None:
            node.lower = None
        else:
            node.upper = None
    elif kind == "swap_args":
        node.args = [node.args[1], node.args[0]]


def mutants_of(path):
    """Yields (kind, lineno, mutated source)."""
    src = open(path).read()
    tree = ast.parse(src)
    s = Sites()
    s.visit(tree)
    n = len(s.sites)
    for k in range(n):
        t2 = copy.deepcopy(tree)
        s2 = Sites()
        s2.visit(t2)
        kind, node, idx = s2.sites[k]
        line = getattr(node, "lineno", 0)
        if kind == "continue":
            # 'continue' -> 'pass'
            class R(ast.NodeTransformer):
                def visit_Continue(self, nd):
                    return ast.copy_location(ast.Pass(), nd) if nd is node else nd
            t2 = R().visit(t2)
        elif kind == "not":
            # 'not x' -> 'x'
            class N(ast.NodeTransformer):
                def visit_UnaryOp(self, nd):
                    self.generic_visit(nd)
                    return nd.operand if nd is node else nd
            t2 = N().visit(t2)
        elif kind == "return_none":
            node.value = ast.Constant(value=None)
        else:
            apply(kind, node, idx)
        ast.fix_missing_locations(t2)
        try:
            yield kind, line, ast.unparse(t2)
        except Exception:
            continue


def run(cmd, cwd, env=None, timeout=900):
    try:
        p = subprocess.run(cmd, cwd=cwd, env=env, stdout=subprocess.PIPE, stderr=subprocess.STDOUT, timeout=timeout)
        return p.returncode, p.stdout.decode("utf8", "replace")
    except subprocess.TimeoutExpired:
        return 124, "timeout"


def suite_result(repo):
    env = dict(os.environ, PYTHONPATH="%s:%s/spil_hamlet_conf" % (repo, repo))
    code, out = run(["/venv/bin/python", "-m", "pytest", "-q", "-p", "no:cacheprovider", "--timeout=300", "--continue-on-collection-errors", "-rfE"],
                    repo, env, 600)
    import re
    failed = sorted(l.split(" ", 1)[1].split(" - ")[0].strip() for l in out.splitlines() if l.startswith("FAILED ") or l.startswith("ERROR "))
    m = re.search(r"(\d+) passed", out)
    return "%s passed; failed: %s" % (m.group(1) if m else "?", ",".join(failed))


def check(prop, repo, evdir):
    env = dict(os.environ, VERIF_SEED="0", VERIF_REPO=repo, VERIF_EVIDENCE_DIR=evdir)
    code, out = run(["/venv/bin/python", os.path.join(HERE, "check.py"), prop, "--tier", "quick"], HERE, env, 900)
    kinds = ""
    for l in out.splitlines():
        if l.startswith("violation kinds"):
            kinds = l[:200]
    return code, kinds


def main():
    ap = argparse.ArgumentParser()
    ap.add_argument("--budget-min", type=float, default=120)
    ap.add_argument("--seed", type=int, default=0)
    ap.add_argument("--max", type=int, default=10 ** 6)
    ap.add_argument("--verify-identity", action="store_true")
    a = ap.parse_args()
    os.makedirs(os.path.join(OUT, "survivors"), exist_ok=True)
    files = anchored_files()
    rng = random.Random(a.seed)
    base = tempfile.mkdtemp(prefix="mut_", dir="/dev/shm")
    repo = os.path.join(base, "repo")
    evdir = os.path.join(base, "ev")
    os.makedirs(os.path.join(evdir, "replays"))
    subprocess.run(["rsync", "-a", "--exclude", ".git", "--exclude", "__pycache__", "/repo/", repo + "/"], check=True)
    baseline = suite_result(repo)
    print("baseline suite (scratch copy):", baseline)
    # all mutants of all files, sampled uniformly over files first (so that small files are covered too)
    pool = []
    for f in sorted(files):
        # the mutants are printed back from the AST: the unmutated print-back of the file must not change the suite's result
        target = os.path.join(repo, f)
        orig = open(target).read()
        open(target, "w").write(ast.unparse(ast.parse(orig)))
        ident = suite_result(repo) if a.verify_identity else baseline
        open(target, "w").write(orig)
        if ident != baseline:
            print("SKIPPED (print-back changes the suite: %s): %s" % (ident, f))
            continue
        ms = list(mutants_of(os.path.join(repo, f)))
        rng.shuffle(ms)
        pool.append((f, ms))
        print("%-55s %4d mutation sites" % (f, len(ms)))
    t0 = time.time()
    done = 0
    res_path = os.path.join(OUT, "results.jsonl")
    seen = set()
    if os.path.exists(res_path):
        for l in open(res_path):
            d = json.loads(l)
            seen.add((d["file"], d["kind"], d["line"]))
    rounds = 0
    while time.time() - t0 < a.budget_min * 60 and done < a.max and any(ms for _f, ms in pool):
        rounds += 1
        for f, ms in pool:
            if not ms or time.time() - t0 > a.budget_min * 60 or done >= a.max:
                continue
            kind, line, src = ms.pop()
            if (f, kind, line) in seen:
                continue
            seen.add((f, kind, line))
            target = os.path.join(repo, f)
            orig = open(target).read()
            open(target, "w").write(src)
            rec = {"file": f, "kind": kind, "line": line, "id": "%s:%d:%s" % (f, line, kind)}
            try:
                code, out = run(["/venv/bin/python", "-c", "import spil; from spil import Sid; Sid('hamlet')"], repo,
                                dict(os.environ, PYTHONPATH="%s:%s/spil_hamlet_conf" % (repo, repo)), 120)
                if code != 0:
                    rec["outcome"] = "does_not_import"
                else:
                    sr = suite_result(repo)
                    if sr != baseline:
                        rec["outcome"] = "killed_by_tests"
                        rec["suite"] = sr
                    else:
                        order = files[f] + [p for p in ALL if p not in files[f]]
                        rec["outcome"] = "survived"
                        rec["checks_run"] = 0
                        for prop in order:
                            c, kinds = check(prop, repo, evdir)
                            rec["checks_run"] += 1
                            if c == 1:
                                rec["outcome"] = "caught"
                                rec["caught_by"] = prop
                                rec["own_property"] = prop in files[f]
                                rec["kinds"] = kinds
                                break
                            if c not in (0, 2):
                                rec.setdefault("errors", []).append("%s exit %s" % (prop, c))
                            if c == 2:
                                rec.setdefault("inconclusive", []).append(prop)
                        if rec["outcome"] == "survived":
                            d = subprocess.run(["diff", "-u", "--label", "a/" + f, "--label", "b/" + f, "-", target],
                                               input=ast.unparse(ast.parse(orig)).encode(),
                                               stdout=subprocess.PIPE).stdout.decode()
                            open(os.path.join(OUT, "survivors", "%s_%d_%s.diff" % (f.replace("/", "_"), line, kind)), "w").write(d)
            finally:
                open(target, "w").write(orig)
            rec["wall"] = round(time.time() - t0, 1)
            with open(res_path, "a") as fo:
                fo.write(json.dumps(rec) + "\n")
            done += 1
            print(done, rec["id"], rec["outcome"], rec.get("caught_by", ""), rec.get("suite", ""))
            sys.stdout.flush()
    shutil.rmtree(base, ignore_errors=True)


if __name__ == "__main__":
    main()
