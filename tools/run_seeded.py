#!/venv/bin/python
"""run_seeded.py <seeded dir | patch.diff> [--checks C01,C02,...] [--tier quick] [--inplace] [--seeds 0,1]

Runs checks against a seeded change.
default : the patch is applied to a scratch copy of /repo's working tree (rsync to a temp dir + git apply) and the checks run
          with VERIF_REPO pointing at it  (nothing touches /repo; safe while other runs use /repo).
--inplace: git -C /repo apply <patch>, run, git -C /repo checkout -- . (the procedure of the task statement).
Prints one line per check: CAUGHT / missed / inconclusive, and writes <seeded dir>/result.json.
"""
import argparse
import json
import os
import shutil
import subprocess
import sys
import tempfile

HERE = os.path.dirname(os.path.dirname(os.path.abspath(__file__)))
ALL = ["C%02d" % i for i in range(1, 21)]
EVDIR = tempfile.mkdtemp(prefix="seeded_ev_", dir="/dev/shm" if os.path.isdir("/dev/shm") else None)
os.makedirs(os.path.join(EVDIR, "replays"), exist_ok=True)


def run_check(prop, tier, seed, repo):
    env = dict(os.environ, VERIF_SEED=str(seed), VERIF_REPO=repo, VERIF_EVIDENCE_DIR=EVDIR)
    p = subprocess.run(["/venv/bin/python", os.path.join(HERE, "check.py"), prop, "--tier", tier], cwd=HERE, env=env,
                       stdout=subprocess.PIPE, stderr=subprocess.STDOUT, timeout=7200)
    out = p.stdout.decode("utf8", "replace")
    kinds = ""
    for l in out.splitlines():
        if l.startswith("violation kinds"):
            kinds = l[:300]
    return p.returncode, kinds, out


def main():
    ap = argparse.ArgumentParser()
    ap.add_argument("target")
    ap.add_argument("--checks", default=None)
    ap.add_argument("--tier", default="quick")
    ap.add_argument("--inplace", action="store_true")
    ap.add_argument("--seeds", default="0")
    a = ap.parse_args()
    patch = a.target if a.target.endswith(".diff") else os.path.join(a.target, "patch.diff")
    sdir = os.path.dirname(os.path.abspath(patch))
    checks = a.checks.split(",") if a.checks else ALL
    seeds = [int(s) for s in a.seeds.split(",")]
    tmp = None
    if a.inplace:
        repo = "/repo"
        subprocess.run(["git", "-C", "/repo", "apply", os.path.abspath(patch)], check=True)
    else:
        tmp = tempfile.mkdtemp(prefix="seeded_", dir="/dev/shm" if os.path.isdir("/dev/shm") else None)
        repo = os.path.join(tmp, "repo")
        subprocess.run(["rsync", "-a", "--exclude", ".git", "--exclude", "__pycache__", "--exclude", "data/testing/SPIL_PROJECTS",
                        "/repo/", repo + "/"], check=True)
        subprocess.run(["git", "init", "-q"], cwd=repo, check=True)
        r = subprocess.run(["git", "apply", os.path.abspath(patch)], cwd=repo, stdout=subprocess.PIPE, stderr=subprocess.STDOUT)
        if r.returncode != 0:
            print("PATCH DOES NOT APPLY:", r.stdout.decode()[:500])
            shutil.rmtree(tmp, ignore_errors=True)
            sys.exit(3)
    results = {}
    try:
        for c in checks:
            verdicts = []
            for sd in seeds:
                code, kinds, out = run_check(c, a.tier, sd, repo)
                verdicts.append({"seed": sd, "exit": code, "kinds": kinds})
                word = {0: "missed", 1: "CAUGHT", 2: "inconclusive"}.get(code, "error %s" % code)
                print("%s seed=%d %s %s" % (c, sd, word, kinds[:160]))
                sys.stdout.flush()
                if code == 1:
                    break
            results[c] = verdicts
    finally:
        if a.inplace:
            subprocess.run(["git", "-C", "/repo", "checkout", "--", "."], check=True)
        if tmp:
            shutil.rmtree(tmp, ignore_errors=True)
        shutil.rmtree(EVDIR, ignore_errors=True)
    rj = os.path.join(sdir, "result.json")
    if os.path.isfile(rj) and not a.target.endswith(".diff"):
        # results of checks not run this time are kept
        try:
            old = json.load(open(rj)).get("results", {})
            results = dict(old, **results)
        except Exception:
            pass
    caught = [c for c, v in results.items() if any(x["exit"] == 1 for x in v)]
    print("CAUGHT BY:", ",".join(caught) or "-")
    if os.path.isdir(sdir) and not a.target.endswith(".diff"):
        with open(os.path.join(sdir, "result.json"), "w") as f:
            json.dump({"tier": a.tier, "inplace": a.inplace, "results": results, "caught_by": caught}, f, indent=1)


if __name__ == "__main__":
    main()
