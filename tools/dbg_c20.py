"""Developer helper: run every C20 sub-check under the first configurations with a short timeout (finds hangs)."""
import sys, os, json, random
sys.path.insert(0, os.path.dirname(os.path.dirname(os.path.abspath(__file__))))
from lib.snapshot import Snapshot
from lib import confgen
from lib.workers import run_one
from checks.c20 import SUBS
snap = Snapshot()
seed = int(os.environ.get("VERIF_SEED", "0"))
rng = random.Random(seed * 7919 + 13)
only = sys.argv[1:] 
for k in range(6):
    params = confgen.gen_params(rng, "identity" if k == 0 else None)
    for sub in SUBS:
        if only and sub not in only:
            continue
        d = os.path.join(snap.root, "g_%d_%s" % (k, sub))
        confgen.emit(params, d)
        res = run_one(snap, "c20", {"sub": sub, "sub_args": dict(SUBS[sub], seed=k), "params": params, "conf_index": k}, snap.env(conf_first=d), 60)
        print(k, sub, (res.get('_failed') or '')[-400:].replace('\n', ' | '), res.get('evaluations'), res.get('unlisted_n'), (res.get('inconclusive') or [''])[0][:400])
        sys.stdout.flush()
