#!/bin/bash
# verify_demos.sh [jobs]: on scratch copies of the CURRENT /repo tree, every seeded demo.py must PASS on the clean tree and FAIL with
# its patch applied (a seed whose demo passes with the patch has been neutralised by a later fix). Nothing touches /repo.
jobs=${1:-4}
cd "$(dirname "$0")/.."
V=$(pwd)
base=$(mktemp -d -p /dev/shm demos_XXXX)
ls -d seeded/*/ | sed 's,/$,,' | while read d; do [ -f $d/demo.py ] && ! grep -q '"neutralised"' $d/meta.json && echo $d; done > $base/list
split -n l/$jobs $base/list $base/part_
for part in $base/part_*; do
  (
    S=$base/$(basename $part)_repo
    rsync -a --exclude .git /repo/ $S/
    cd $S; git init -q; git add -A >/dev/null 2>&1; git -c user.email=a@b -c user.name=x commit -qm base >/dev/null
    mkdir -p $S/_seed/change_1; touch $S/_seed/__init__.py $S/_seed/change_1/__init__.py
    echo "_seed/" >> $S/.git/info/exclude
    while read d; do
      # (demos find "their" worktree two levels above their own file, as where the sub-agents wrote them)
      cp $V/$d/demo.py $S/_seed/change_1/demo.py
      PYTHONPATH=$S:$S/spil_hamlet_conf timeout 600 /venv/bin/python $S/_seed/change_1/demo.py > /dev/null 2>&1
      c=$?
      [ $c -ne 0 ] && echo "DEMO FAILS ON CLEAN TREE: $d (exit $c)"
      if git apply $V/$d/patch.diff 2>/dev/null; then
        PYTHONPATH=$S:$S/spil_hamlet_conf timeout 600 /venv/bin/python $S/_seed/change_1/demo.py > /dev/null 2>&1
        c=$?
        [ $c -eq 0 ] && echo "DEMO PASSES WITH THE CHANGE (neutralised?): $d"
        git checkout -q -- . ; git clean -fdq
      else
        echo "PATCH DOES NOT APPLY: $d"
      fi
    done < $part
  ) &
done
wait
echo "verified $(wc -l < $base/list) demos"
rm -rf $base
