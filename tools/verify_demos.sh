#!/bin/bash
# verify_demos.sh [jobs]: every seeded demo.py must PASS on the current clean tree (scratch copies of /repo; nothing touches /repo)
jobs=${1:-4}
cd "$(dirname "$0")/.."
base=$(mktemp -d -p /dev/shm demos_XXXX)
ls -d seeded/*/ | sed 's,/$,,' | while read d; do [ -f $d/demo.py ] && echo $d; done > $base/list
split -n l/$jobs $base/list $base/part_
for part in $base/part_*; do
  (
    S=$base/$(basename $part)_repo
    rsync -a --exclude .git /repo/ $S/
    while read d; do
      PYTHONPATH=$S:$S/spil_hamlet_conf timeout 600 /venv/bin/python $d/demo.py > $base/out.$(basename $d) 2>&1
      c=$?
      [ $c -ne 0 ] && echo "DEMO FAILS ON CLEAN TREE: $d (exit $c)"
    done < $part
  ) &
done
wait
echo "verified $(wc -l < $base/list) demos"
rm -rf $base
