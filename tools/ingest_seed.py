#!/venv/bin/python
"""ingest_seed.py <worktree> <Cnn>

Confirms, in the sub-agent's scratch worktree, everything claimed for each _seed/change_K:
  - the patch applies on the clean tree, the library imports, the existing test suite still gives 46 passed / 1 failed
  - demo.py fails with the change and passes without it
and copies the confirmed change to /verif/seeded/<Cnn>_<K>/ (patch.diff, demo.py, notes.md, meta.json).
"""
import json
import os
import re
import shutil
import subprocess
import sys

HERE = os.path.dirname(os.path.dirname(os.path.abspath(__file__)))


def sh(cmd, cwd, env=None, timeout=1800):
    p = subprocess.run(cmd, cwd=cwd, env=env, shell=isinstance(cmd, str), stdout=subprocess.PIPE, stderr=subprocess.STDOUT, timeout=timeout)
    return p.returncode, p.stdout.decode("utf8", "replace")


def main():
    wt, prop = sys.argv[1], sys.argv[2].upper()
    prefix = sys.argv[3] if len(sys.argv) > 3 else ""
    env = dict(os.environ, PYTHONPATH="%s:%s/spil_hamlet_conf" % (wt, wt))
    props = {json.loads(l)["id"]: json.loads(l) for l in open(os.path.join(HERE, "properties.jsonl"))}
    for k in (1, 2, 3):
        d = os.path.join(wt, "_seed", "change_%d" % k)
        if not os.path.isdir(d):
            continue
        patch = os.path.join(d, "patch.diff")
        demo = os.path.join(d, "demo.py")
        if sys.argv[2].upper() == "AUTO":
            # file-centric round: the property is named on the first line of notes.md ("property: Cnn")
            try:
                first = open(os.path.join(d, "notes.md")).read(400)
                m0 = re.search(r"property:\s*\**\s*(C\d\d)", first, re.I)
                prop = m0.group(1).upper() if m0 else "C00"
            except OSError:
                prop = "C00"
        report = {"property": prop, "change": k}
        sh("git checkout -- spil spil_hamlet_conf", wt)
        # demo on the clean tree
        rc_clean, out_clean = sh(["/venv/bin/python", demo], d, env)
        rc, out = sh(["git", "apply", "--check", patch], wt)
        if rc != 0:
            print(prop, k, "PATCH DOES NOT APPLY", out[:300])
            continue
        sh(["git", "apply", patch], wt)
        rc_t, out_t = sh("/venv/bin/python -m pytest -q -p no:cacheprovider --timeout=900 --continue-on-collection-errors --ignore=_seed 2>&1 | tail -4", wt, env)
        m = re.search(r"(\d+) failed, (\d+) passed", out_t) or re.search(r"(\d+) passed", out_t)
        failed = re.findall(r"^FAILED (\S+)", out_t, re.M)
        tests_ok = ("46 passed" in out_t) and failed == ["spil/conf/util.py::spil.conf.util.extrapolate_templates"]
        rc_mut, out_mut = sh(["/venv/bin/python", demo], d, env)
        sh("git checkout -- spil spil_hamlet_conf", wt)
        ok = tests_ok and rc_clean == 0 and rc_mut != 0
        report.update({"tests_with_change": out_t.strip().splitlines()[-1] if out_t.strip() else "", "tests_ok": tests_ok,
                       "demo_clean_exit": rc_clean, "demo_with_change_exit": rc_mut, "confirmed": ok,
                       "demo_with_change_output": out_mut[-400:]})
        print(prop, k, "CONFIRMED" if ok else "REJECTED", json.dumps({k2: v for k2, v in report.items() if k2 not in ("demo_with_change_output",)}))
        if not ok:
            continue
        dst = os.path.join(HERE, "seeded", "%s_%s%d" % (prop, prefix, k))
        os.makedirs(dst, exist_ok=True)
        for f in ("patch.diff", "demo.py", "notes.md"):
            if os.path.exists(os.path.join(d, f)):
                shutil.copy(os.path.join(d, f), os.path.join(dst, f))
        notes = open(os.path.join(d, "notes.md")).read() if os.path.exists(os.path.join(d, "notes.md")) else ""
        meta = {"property": prop, "title": props[prop]["title"], "origin": "independent sub-agent given only the property text and a scratch worktree",
                "needs_to_manifest": notes[:1500],
                "confirmed_by": {"patch_applies_on_clean_tree": True, "existing_tests_with_change": report["tests_with_change"],
                                 "demo_exit_clean": rc_clean, "demo_exit_with_change": rc_mut,
                                 "commands": ["git apply patch.diff (scratch worktree)",
                                              "pytest -q -p no:cacheprovider --timeout=900 --continue-on-collection-errors --ignore=_seed",
                                              "python demo.py (with and without the change)"]}}
        with open(os.path.join(dst, "meta.json"), "w") as f:
            json.dump(meta, f, indent=1)


if __name__ == "__main__":
    main()
