#!/bin/bash
# good_variants.sh [jobs]  (ALL=1: every check instead of the related ones): the false-alarm side of the seeded changes. Round 11 delivered every pull request in two variants: patch.diff
# (one realistic slip, breaks a property) and patch_good.diff (the same improvement done right - it changes behaviour only where the
# statements are silent, e.g. it repairs a known finding). The registered quick checks related to the touched code must stay SILENT
# (exit 0) on every good variant. Uses scratch copies of /repo's working tree (tools/run_seeded.py); nothing touches /repo.
jobs=${1:-3}
cd "$(dirname "$0")/.."
base=$(mktemp -d -p /dev/shm good_XXXX)
related() {
  if [ -n "$ALL" ]; then echo C01,C02,C03,C04,C05,C06,C07,C08,C09,C10,C11,C12,C13,C14,C15,C16,C17,C18,C19,C20; return; fi
  case $1 in
    C01*) echo C01,C02,C03,C04,C07,C14,C20 ;; C02*) echo C01,C02,C04,C07,C13 ;; C06*) echo C05,C06,C11,C20 ;;
    C08*) echo C08,C09,C10,C11,C12,C13 ;; C09*) echo C09,C10,C11,C12,C13,C18 ;; C13*) echo C01,C02,C04,C07,C08,C10,C11,C12,C13 ;;
    C15*) echo C09,C10,C11,C12,C15,C16,C17,C18 ;; C17*) echo C15,C16,C17 ;; *) echo $(echo $1 | cut -c1-3) ;;
  esac
}
export -f related
one() {
  d=$1; base=$2; n=$(basename $d)
  mkdir -p $base/$n; cp $d/patch_good.diff $base/$n/patch.diff; echo '{"property": "good variant"}' > $base/$n/meta.json
  /venv/bin/python tools/run_seeded.py $base/$n --checks $(related $n) --seeds ${SEEDS:-0} > $base/$n/log 2>&1
  python3 - $base/$n/result.json $n <<'PY'
import json, sys
d = json.load(open(sys.argv[1]))
bad = [(p, r) for p, runs in d["results"].items() for r in runs if r["exit"] != 0]
print("%s: %d check runs, %s" % (sys.argv[2], sum(len(r) for r in d["results"].values()), "ALL SILENT (exit 0)" if not bad else "NOT SILENT: %r" % bad))
PY
}
export -f one
ls seeded/*/patch_good.diff | xargs -n1 dirname | xargs -P $jobs -I{} bash -c "one {} $base"
rm -rf $base
