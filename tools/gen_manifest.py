#!/usr/bin/env python3
"""Regenerates MANIFEST.json from the table below (kept in one place so it stays valid)."""
import json
import os

HERE = os.path.dirname(os.path.dirname(os.path.abspath(__file__)))

CHECKS = {
    "C01": ("exploration", "3 C01",
            "M-sid monitor on the Sid factory judges every Sid built from a string against an independent segment-wise "
            "template matcher (R1) over tens of thousands of generated strings (valid, near-miss, uri-prefixed, junk, control "
            "characters); holds for the executions produced, not a proof.",
            "Python re semantics; R1 reads the live spil.conf templates; strings with '?' only judged for not raising.",
            "runtime monitor on sid_factory + reference template matcher over generated strings"),
    "C02": ("exploration", "3 C02",
            "every typed Sid of a stratified generated population is rebuilt through uri, shuffled field dicts, query, eval(repr()) "
            "and copy() and compared; canonical string against an independent renderer; equality law on all pairs of batches that "
            "contain same-string Sids of different (forced) types. Held on the executions produced.",
            "query round trip judged only for query-safe values; forced-type Sids not rebuilt from fields.",
            "metamorphic runtime relations between executions of the real constructors + reference renderer"),
    "C03": ("exploration", "3 C03",
            "get_as / parent / '/' / len / keytype / basetype relations asserted on every key of generated typed Sids (string-built, "
            "forced-type and query-built) and on untyped Sids; held on the executions produced.",
            "relations are computed from the recorded fields and string of the real Sid; natural typing only for the '/' clause.",
            "runtime invariant monitors over generated Sids"),
    "C04": ("exploration", "3 C04",
            "every query / get_with result (API boundary and every internal apply_query call, via a wrapper) is classified as applied or "
            "refused and compared with the R3 overlay + R2 dict-typing oracle, with branch coverage of the decision table required; "
            "held on the executions produced.",
            "R2/R3 are re-implementations from the statement; ambiguous query forms are counted as unspecified, not judged.",
            "runtime monitor on apply_query/get_with + reference overlay/typing model"),
    "C14": ("exploration", "3 C14",
            "pair laws (==/uri, hash, ==str, ordering, set and dict behaviour) on millions of generated pairs incl. same-string Sids of "
            "different types, and a registry monitor (M-reg, fed by a wrapper on the Sid factory) that snapshots every Sid created in the "
            "process and re-validates all of them after every step of random public-operation sequences with mutation attempts on every "
            "returned container. Held on the executions produced.",
            "only public operations and returned containers are used to attempt mutation; exceptions of operations are not C14 verdicts.",
            "runtime invariant monitor (object registry re-validated at quiescent points) + pairwise law checking"),
    "C19": ("exploration", "3 C19",
            "reference implementation of the statement attached as icontract postconditions to the real extrapolate_templates / "
            "pattern_replacing by an import hook (so they already guard the loading of the demo configuration) and evaluated on tens of "
            "thousands of configurations from the C19 grammar. Held on the configurations produced.",
            "type names with zero or several separators are executed but not judged; icontract evaluates on the real call.",
            "icontract postconditions (reference model) on the real functions over generated configurations"),
    "C07": ("exploration", "3 C07",
            "every unfold_search call in the process (wrapper with alias re-binding) is compared, as a set of uris, with an independent "
            "model of the search syntax (alias expansion, ',' distribution, '**' completion to leaf types, all-types typing, narrowing, "
            "filter application with the C04 rule) over generated and malformed searches; exceptions other than SpilException, duplicates, "
            "untyped or query-carrying results are violations. Held on the executions produced.",
            "R4 is a second implementation of the statement; input classes the statement leaves open are counted as unspecified and not judged.",
            "runtime monitor on unfold_search + reference unfolding model over generated searches"),
    "C08": ("exploration", "3 C08",
            "every exhausted FindInList.find in the process (generator wrapper on Finder.find) is compared with the entries that an own "
            "split-and-scan glob matcher (R5) matches against the observed unfolded forms, over generated universes materialised as four "
            "list variants and searches that collide with them; Sid.match is compared with the same oracle. Held on the executions produced.",
            "unfolded forms come from the real unfold_search (judged by C07); filters with URL metacharacters are not judged.",
            "runtime monitor (generator wrapper) on Finder.find + reference glob matcher over generated lists"),
    "C05": ("exploration", "3 C05",
            "round trip Sid -> path(c) -> Sid, purity (repeated, keyword/positional, str/Path, and across two processes that load the path "
            "configurations in opposite order), injectivity over the whole generated set, equal relative paths between configurations and "
            "None for pathless types, asserted on generated concrete Sids incl. names containing the file-name separator; an independent "
            "renderer (R8) cross-checks each path. Held on the executions produced.",
            "roots are derived as the common literal prefix of a configuration's templates; mappings are read from the live configuration.",
            "runtime round-trip / metamorphic monitors on path() and Sid(path=) + reference path renderer"),
    "C06": ("exploration", "3 C06",
            "Sid(path=p, config=c) executed on tens of thousands of mutated paths (desynchronised duplicates, literal parts, dropped / added "
            "components, control characters, switched roots): it must not raise, and a typed result must own exactly p; an independent "
            "matcher with back-references says which mutants conform to no template. Held on the executions produced.",
            "the 'must be untyped' clause is judged only where R8 classifies the mutant; 'typed => path(c) == p' on every path.",
            "runtime monitor on Sid(path=) over mutated paths + reference path conformance model"),
    "C11": ("exploration", "3 C11",
            "one generated universe is materialised (own renderer) as list, local tree and server tree; every generated search runs on "
            "FindInList, FindInPaths(local/server) and FindInAll and is compared with the expected sets (typed glob match over the existing "
            "entities; R7 constants model for FindInAll) and across finders, then again after planting junk that R8 proves non-conforming: "
            "no change, no exception. Held on the executions produced.",
            "unfolded forms are observed from the real unfold_search; '>' searches are cross-compared here and judged against R6 in C09.",
            "differential runtime monitoring across finders + existence reference model + junk fault injection"),
    "C09": ("exploration", "3 C09",
            "for generated '>' searches whose observed unfolded forms carry '>' at one index, the result of FindInList, FindInPaths(local, "
            "server) and FindInAll is compared with R6 (greatest remaining-segment tuple per prefix group) over the independently computed "
            "match sets, on universes built to make string and segment order disagree; get_last(key) is compared with the same oracle. "
            "Held on the executions produced.",
            "searches outside the statement's premise ('>' at different indices in the unfolded forms) are counted and not judged.",
            "runtime differential monitoring of finders against a reference 'last' model over generated universes"),
    "C10": ("exploration", "3 C10",
            "metamorphic relations between two executions of the same real Finder on the same data (',' union, alias union, '**' union of "
            "'/*' levels restricted to leaf types, filter == subset by field, literal-for-'*' == subset, result.match(search), no duplicates) "
            "on FindInList, FindInPaths(local, server) and FindInAll over generated universes. Held on the executions produced.",
            "rules are only applied where they are sound for the overlay semantics of filters (see assumptions in the evidence).",
            "metamorphic runtime monitoring (pairs of executions compared as sets)"),
    "C12": ("exploration", "3 C12",
            "exists / find_one / as_sid agreement with find on every finder, and Sid.exists / children / siblings against the R7 existence "
            "model, leaf => no children, existing => parent exists, over generated universes and histories in which entities are created "
            "through the real writer between calls (model updated, everything re-asked). Held on the executions produced.",
            "R7 models constant-backed levels from the live configuration; unbacked levels and root siblings are not judged.",
            "runtime consistency monitors between API calls + existence reference model over create histories"),
    "C15": ("exploration", "3 C15",
            "history checking: every sequence of up to 3 (thorough: 4) operations over an alphabet of ~23 create/set/update calls on 7 Sids is "
            "enumerated, plus random sequences up to length 40; each operation's outcome and, after each operation, all observables of all "
            "Sids (FindInPaths existence, found-by-search, get_data, get_attr, a new Getter, sampled new-process reads) are compared with a "
            "sequential model; written values are unique so a read identifies the writes it saw. Held on the histories produced.",
            "entities differing only by the extension may share a store (both readings accepted); the harness resets the tree between sequences.",
            "recorded-history checking against an executable sequential model (exhaustive short + random long sequences)"),
    "C16": ("exploration", "3 C16",
            "GetFromPaths(c).get is aligned record by record with FindInPaths(c).find and with sidecar data written by the harness, for every "
            "attributes subset and three encoders; GetFromAll is compared with it per configured getter; get_one/get_data/get_attr with the "
            "records. Held on the executions produced.",
            "sidecar location is read from the live configuration.",
            "runtime alignment monitor between Getter and Finder executions + independent data store"),
    "C17": ("fault_enumeration", "3 C17",
            "the file-system effects of each write scenario are recorded and the operation is re-executed dying before every effect and after "
            "every (quick: every 2nd) byte prefix of every write (python-level interposer), and killed by the kernel on entry to every mutating "
            "syscall (strace inject), the strace pass also checking that the interposer sees every kind of mutating syscall; after each crash the "
            "real code reads back old-or-new data, unchanged neighbours, working searches and a succeeding next write; every truncation / "
            "emptied / directory / unreadable corruption of a sidecar must blank only that Sid. Enumerates the crash points of the effects the "
            "write actually performs.",
            "crash = process death (data handed to the kernel survives); no power-loss reordering; reference old/new states from uncut runs.",
            "crash-point and fault enumeration (python interposer + strace kill injection) with a recovery oracle"),
    "C18": ("exploration", "3 C18",
            "get_last / get_next / get_new compared with an oracle over the R7 existing set and the configured version pattern on generated "
            "trees with empty, sparse, contiguous and maximal version sets, incl. '*', '>' and absent versions and overflow beyond the last "
            "representable version; publish histories create(get_new()) checked for strictly increasing, never reused versions. Held on the "
            "executions produced.",
            "get_new on a Sid carrying a version while no version exists is not judged (statement silent).",
            "runtime monitors against a version-workflow reference model + ordering checker over publish histories"),
    "C13": ("exploration", "3 C13",
            "differential against fresh state: a pristine fork server per (hash seed x cache capacity) never calls spil itself; every random "
            "history (<= 50 calls from a ~250 call alphabet covering every cached entry point, flag and configuration value, partial "
            "generator consumption, creates and cache-overflowing fillers) runs in a forked child and EVERY position is compared with the same "
            "call in a fresh child on the same data state; equivalent spellings (positional / keyword, str / Path, None / default config) are "
            "compared; fresh results are compared across 8 hash seeds and with truly fresh interpreters; cache hits / evictions actually "
            "observed are reported and required. Held on the histories produced.",
            "file-system backed finds compared as sets; mutation of returned containers by client code is out of the alphabet.",
            "differential runtime monitoring of histories against fresh processes (fork server), across hash seeds and cache capacities"),
    "C20": ("exploration", "3 C20",
            "configuration packages generated from a parameter vector (renamed keys / basetypes / codes / leaf key, removed and inserted levels, "
            "separators, fixed folders, vocabularies, digit patterns, third basetype, third path configuration, constants on / off, mapping "
            "styles incl. a non-idempotent one-to-one rotation) are validated by the harness and put first on the python path of fresh "
            "processes in which the unchanged monitors and reference models of C01-C08 and C11 run (they read the live spil.conf). Held on the "
            "configurations produced.",
            "separators that are regex metacharacters are excluded (template literals are regex for the third-party resolver); the known "
            "trailing-newline findings apply under every configuration.",
            "the runtime monitors of C01-C08, C11 re-run under generated configurations"),
}

NOT_YET = {}


def main():
    props = [json.loads(l) for l in open(os.path.join(HERE, "properties.jsonl"))]
    checks = []
    na = []
    for p in props:
        pid = p["id"]
        if pid in CHECKS:
            cat, ref, text, note, tech = CHECKS[pid]
            checks.append({
                "property_id": pid,
                "quick_cmd": "/venv/bin/python check.py %s --tier quick" % pid,
                "thorough_cmd": "/venv/bin/python check.py %s --tier thorough" % pid,
                "evidence_file": "evidence/%s.json" % pid,
                "replay_cmd_template": "/venv/bin/python check.py %s --replay {path}" % pid,
                "engine": "spil-runtime-monitors",
                "level_claimed": {"category": cat, "text": text, "design_ref": "DESIGN.md section " + ref},
                "level_note": note,
                "technique": tech,
            })
        else:
            na.append({"property_id": pid, "reason": NOT_YET.get(pid, "check not built yet in this round (runtime-monitoring design exists in DESIGN.md section 3)")})
    man = {
        "version": 1,
        "setup_cmd": "/venv/bin/python tools/setup_check.py",
        "hooks": {
            "guard": "SPIL_VERIF",
            "enable": "no source hooks in /repo: monitors are attached from the harness side (wrappers on the real functions of a snapshot of /repo's working tree); SPIL_VERIF=1 is set in worker processes",
            "baseline_off_cmd": "cd /repo && /venv/bin/python -m pytest -ra -q -p no:cacheprovider --timeout=900 --continue-on-collection-errors",
            "source_commits": [],
            "add_only": True,
        },
        "engines": [{
            "name": "spil-runtime-monitors",
            "path": "check.py",
            "serves_properties": sorted(CHECKS),
            "kind_free_text": "runtime monitoring: recording wrappers / contracts on the real spil functions, reference-model oracles, "
                              "history checkers and fault injection, driven by seeded generated workloads in sharded subprocesses",
        }],
        "checks": checks,
        "not_applicable": na,
        "notes": "Known findings: KNOWN_FINDINGS.txt. Exit 2 + INCONCLUSIVE line = deciding monitor not reached / worker failed (never folded into held).",
    }
    with open(os.path.join(HERE, "MANIFEST.json"), "w") as f:
        json.dump(man, f, indent=1)
    print("wrote MANIFEST.json: %d checks, %d not_applicable" % (len(checks), len(na)))


if __name__ == "__main__":
    main()
