#!/usr/bin/env python3
"""Prints, per check, the floors with the smallest actual/minimum ratio found in evidence/*.json (to spot floors that are too tight)."""
import glob, json, os
HERE = os.path.dirname(os.path.dirname(os.path.abspath(__file__)))
for f in sorted(glob.glob(os.path.join(HERE, "evidence", "C*.json"))):
    e = json.load(open(f))
    fl = e["coverage"].get("floors", {})
    rows = sorted(((a / m if m else 99, n, a, m) for n, (a, m) in fl.items()))
    print(e["property_id"], e["tier"], e["seed"], " | ".join("%s %.1fx (%s/%s)" % (n[:38], r, a, m) for r, n, a, m in rows[:3]))
