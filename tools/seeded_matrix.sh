#!/bin/bash
# seeded_matrix.sh [own|all] [parallel jobs, default 3] [name filter (grep -E)]:
# runs every seeded change against its own property's check (own) or against all checks (all); results go to seeded/<id>/result.json
mode=${1:-own}
jobs=${2:-3}
filter=${3:-.}
cd "$(dirname "$0")/.."
one() {
  d=$1; mode=$2
  name=$(basename $d)
  prop=$(echo $name | sed -E 's/^revert_(C[0-9]+)_.*/\1/; s/^(C[0-9]+)_.*/\1/')
  if [ "$mode" = "own" ]; then
    res=$(/venv/bin/python tools/run_seeded.py $d --checks $prop --seeds ${SEEDS:-0,1} 2>&1 | tail -1)
  else
    res=$(/venv/bin/python tools/run_seeded.py $d 2>&1 | tail -1)
  fi
  echo "$name -> $res"
}
export -f one
ls -d seeded/*/ | sed 's,/$,,' | grep -E "$filter" | while read d; do grep -q '"neutralised"' $d/meta.json 2>/dev/null || echo $d; done | xargs -P $jobs -I{} bash -c "one {} $mode"
