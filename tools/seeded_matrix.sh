#!/bin/bash
# seeded_matrix.sh [own|all] : runs every seeded change against its own property's check (own) or against all checks (all)
mode=${1:-own}
cd "$(dirname "$0")/.."
for d in seeded/*/; do
  d=${d%/}
  name=$(basename $d)
  prop=$(echo $name | sed -E 's/^revert_(C[0-9]+)_.*/\1/; s/^(C[0-9]+)_.*/\1/')
  if [ "$mode" = "own" ]; then
    res=$(/venv/bin/python tools/run_seeded.py $d --checks $prop --seeds 0,1 2>&1 | tail -1)
  else
    res=$(/venv/bin/python tools/run_seeded.py $d 2>&1 | tail -1)
  fi
  echo "$name -> $res"
done
