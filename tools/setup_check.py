#!/venv/bin/python
"""setup_cmd: verifies, offline, that everything the checks need is on disk (nothing to build)."""
import os
import subprocess
import sys
import zipfile

HERE = os.path.dirname(os.path.dirname(os.path.abspath(__file__)))
ok = True
for w in ("icontract-2.7.3-py3-none-any.whl", "asttokens-2.4.1-py2.py3-none-any.whl", "six-1.17.0-py2.py3-none-any.whl"):
    p = os.path.join(HERE, "vendor", w)
    if not (os.path.exists(p) and zipfile.is_zipfile(p)):
        print("missing vendor wheel", p)
        ok = False
for tool in ("rsync", "strace"):
    if subprocess.run(["which", tool], stdout=subprocess.DEVNULL).returncode != 0:
        print("missing tool", tool)
        ok = False
sys.path[:0] = [os.path.join(HERE, "vendor", w) for w in os.listdir(os.path.join(HERE, "vendor")) if w.endswith(".whl")]
try:
    import icontract  # noqa
except Exception as e:
    print("icontract not importable:", e)
    ok = False
os.makedirs(os.path.join(HERE, "evidence", "replays"), exist_ok=True)
print("setup ok" if ok else "setup FAILED")
sys.exit(0 if ok else 1)
