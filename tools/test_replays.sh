#!/bin/bash
# For each check: run it against a seeded change it catches (scratch copy), then replay the first stored violation
# against the same scratch copy (must reproduce: exit 1) and against the clean tree (must not: exit 0).
cd "$(dirname "$0")/.."
declare -A M=( [C01]=revert_C01_1775b34 [C02]=revert_C02_b82bfb4 [C03]=revert_C03_0c17800 [C04]=revert_C04_3d7e00e [C05]=C05_2 [C06]=revert_C06_7705fe1
 [C07]=revert_C07_5b29b28 [C08]=C08_1 [C09]=revert_C09_97c60c2 [C10]=C10_2 [C11]=C11_2 [C12]=C12_2 [C13]=C13_1 [C14]=C14_1 [C15]=C15_1
 [C16]=C16_2 [C17]=revert_C17_96834f5 [C18]=C18_1 [C19]=revert_C19_fd0310b [C20]=revert_C20_659f81d )
for c in "${@:-C01 C02 C03 C04 C05 C06 C07 C08 C09 C10 C11 C12 C13 C14 C15 C16 C17 C18 C19 C20}"; do for c in $c; do
  T=$(mktemp -d /dev/shm/rp_XXXX); rsync -a --exclude .git --exclude __pycache__ --exclude data/testing/SPIL_PROJECTS /repo/ $T/repo/
  (cd $T/repo && git init -q && git apply /verif/seeded/${M[$c]}/patch.diff) || { echo "$c patch failed"; continue; }
  VERIF_REPO=$T/repo /venv/bin/python check.py $c > /tmp/rp_$c.txt 2>&1; r1=$?
  f=evidence/replays/$c-0-0.json
  VERIF_REPO=$T/repo /venv/bin/python check.py $c --replay $f > /tmp/rp2_$c.txt 2>&1; r2=$?
  /venv/bin/python check.py $c --replay $f > /tmp/rp3_$c.txt 2>&1; r3=$?
  echo "$c mutant=${M[$c]} check_exit=$r1 replay_on_mutant=$r2 replay_on_clean=$r3 $(grep -c Traceback /tmp/rp2_$c.txt /tmp/rp3_$c.txt | tr '\n' ' ')"
  rm -rf $T
done; done
