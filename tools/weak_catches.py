#!/usr/bin/env python3
"""weak_catches.py [max]: seeded changes whose recorded catch is thin - caught at only some of the seeds that were run, or with at most
<max> (default 3) violations in the stored sample. Such catches depend on the luck of a seed: strengthen the workload."""
import ast
import glob
import json
import os
import re
import sys

HERE = os.path.dirname(os.path.dirname(os.path.abspath(__file__)))
mx = int(sys.argv[1]) if len(sys.argv) > 1 else 3
for d in sorted(glob.glob(os.path.join(HERE, "seeded", "*"))):
    rp, mp = os.path.join(d, "result.json"), os.path.join(d, "meta.json")
    if not os.path.exists(rp):
        continue
    meta = json.load(open(mp)) if os.path.exists(mp) else {}
    if meta.get("neutralised") or meta.get("not_judged"):
        continue
    res = json.load(open(rp))
    for prop, runs in res.get("results", {}).items():
        if prop not in res.get("caught_by", []):
            continue
        caught = [r for r in runs if r.get("exit") == 1]
        counts = []
        for r in caught:
            m = re.search(r"\{.*\}", r.get("kinds", ""))
            counts.append(sum(ast.literal_eval(m.group(0)).values()) if m else 0)
        if len(caught) < len(runs) or (counts and max(counts) <= mx):
            print("%-28s %s caught at %d of %d seeds, violations per catching seed: %s" % (os.path.basename(d), prop, len(caught), len(runs), counts))
